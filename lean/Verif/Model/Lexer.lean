import Verif.Model.Syntax
/-! Model of `lexer.Tokenize` (internal/logql/lexer/lexer.go over `text/scanner` in its default
`GoTokens` mode, `lexerql.ScanUnit`, `strutil.Unquote`) on byte strings.

Three outcomes: `ok toks`, `err` (the lexer reports an error) and `unsup` (outside the modelled
sub-language: a non-ASCII byte outside string literals and comments — Unicode identifiers and
spaces —, digit separators `_`, `0x`/`0o`/`0b` literals, a byte-order mark).  Everything else is
modelled: white space, `#` / `//` / `/* */` comments, identifiers and the keyword table with the
"function name only in front of `(` / `b` / `w`" look-ahead, decimal numbers with fraction and
exponent, unit suffixes (duration vs bytes vs plain number), interpreted strings with all escape
forms, raw strings, one- and two-character operators, `--flags`, NUL and invalid UTF-8. -/
namespace Lexer
open Syntax

inductive Res (α : Type) where
  | ok (a : α)
  | err
  | unsup
  deriving Repr

def Res.map {α β} (f : α → β) : Res α → Res β
  | .ok a => .ok (f a)
  | .err => .err
  | .unsup => .unsup

def isWs (c : Nat) : Bool := c == 9 || c == 10 || c == 13 || c == 32
/-- `unicode.IsSpace` on ASCII -/
def isSpace (c : Nat) : Bool := isWs c || c == 11 || c == 12
def isLetter (c : Nat) : Bool := Bytes.isLower c || Bytes.isUpper c
def isIdentStart (c : Nat) : Bool := isLetter c || c == 95
def isIdentPart (c : Nat) : Bool := isIdentStart c || Bytes.isDigit c
def isHex (c : Nat) : Bool := Bytes.isDigit c || (97 ≤ c && c ≤ 102) || (65 ≤ c && c ≤ 70)
def hexVal (c : Nat) : Nat := if Bytes.isDigit c then c - 48 else if 97 ≤ c then c - 87 else c - 55
def isOct (c : Nat) : Bool := 48 ≤ c && c ≤ 55

/-- the fixed spellings (the grammar's keyword and operator table) -/
def kwTable : List (String × K) := [
  ("!=", .neq), ("!~", .nre), ("%", .mod), ("(", .lparen), (")", .rparen), ("*", .mul), ("+", .add), (",", .comma), ("-", .sub),
  (".", .dot), ("/", .div), ("<", .lt), ("<=", .lte), ("=", .eq), ("==", .cmpEq), ("=~", .re), (">", .gt), (">=", .gte),
  ("[", .lbracket), ("]", .rbracket), ("^", .pow), ("absent_over_time", .absentOverTime), ("and", .and), ("avg", .avg),
  ("avg_over_time", .avgOverTime), ("bool", .bool), ("bottomk", .bottomk), ("by", .by_), ("bytes", .bytesConv),
  ("bytes_over_time", .bytesOverTime), ("bytes_rate", .bytesRate), ("count", .count), ("count_over_time", .countOverTime),
  ("decolorize", .decolorize), ("distinct", .distinct), ("drop", .drop), ("duration", .durationConv),
  ("duration_seconds", .durationSecondsConv), ("first_over_time", .firstOverTime), ("group_left", .groupLeft),
  ("group_right", .groupRight), ("ignoring", .ignoring), ("ip", .ip), ("json", .json), ("keep", .keep),
  ("label_format", .labelFormat), ("label_replace", .labelReplace), ("last_over_time", .lastOverTime),
  ("line_format", .lineFormat), ("logfmt", .logfmt), ("max", .max), ("max_over_time", .maxOverTime), ("min", .min),
  ("min_over_time", .minOverTime), ("offset", .offset), ("on", .on), ("or", .or), ("pattern", .pattern),
  ("quantile_over_time", .quantileOverTime), ("rate", .rate), ("rate_counter", .rateCounter), ("regexp", .regexp),
  ("sort", .sort), ("sort_desc", .sortDesc), ("stddev", .stddev), ("stddev_over_time", .stddevOverTime), ("stdvar", .stdvar),
  ("stdvar_over_time", .stdvarOverTime), ("sum", .sum), ("sum_over_time", .sumOverTime), ("topk", .topk), ("unless", .unless),
  ("unpack", .unpack), ("unwrap", .unwrap), ("vector", .vector), ("without", .without), ("{", .lbrace), ("|", .pipe),
  ("|=", .pipeExact), ("|~", .pipeMatch), ("}", .rbrace)]

def kwBytes : List (Bytes × K) := kwTable.map fun p => (Bytes.ofString p.1, p.2)

def kwOf (w : Bytes) : Option K := (kwBytes.find? (fun p => p.1 == w)).map (·.2)

/-- `TokenType.IsFunction` -/
def isFunctionK : K → Bool
  | .rate | .rateCounter | .countOverTime | .bytesRate | .bytesOverTime | .avgOverTime | .sumOverTime | .minOverTime
  | .maxOverTime | .stdvarOverTime | .stddevOverTime | .quantileOverTime | .firstOverTime | .lastOverTime | .absentOverTime
  | .vector | .sum | .avg | .max | .min | .count | .stddev | .stdvar | .bottomk | .topk | .sort | .sortDesc | .labelReplace
  | .bytesConv | .durationConv | .durationSecondsConv | .ip => true
  | _ => false

/-- the rest of the input after the end of the current line -/
def skipLine : Bytes → Bytes
  | [] => []
  | c :: r => if c == 10 then r else skipLine r

/-- after `/*`: the input after the closing `*/` (`none`: comment not terminated) -/
def skipBlock : Bytes → Option Bytes
  | 42 :: 47 :: r => some r
  | _ :: r => skipBlock r
  | [] => none

/-- white space and comments in front of a token -/
def skipGap : Nat → Bytes → Res Bytes
  | 0, _ => .unsup
  | f + 1, s =>
    match s with
    | [] => .ok []
    | c :: r =>
      if isWs c then skipGap f r
      else if c == 35 then skipGap f (skipLine r)
      else if c == 47 then
        match r with
        | 47 :: r' => skipGap f (skipLine r')
        | 42 :: r' =>
          (match skipBlock r' with
           | some r'' => skipGap f r''
           | none => .err)
        | _ => .ok s
      else .ok s

/-- `scanSpace`: the look-ahead after a function name skips spaces and `#` comments -/
def skipSpaceC : Nat → Bytes → Bytes
  | 0, s => s
  | _, [] => []
  | f + 1, c :: r =>
    if isSpace c then skipSpaceC f r
    else if c == 35 then skipSpaceC f (skipLine r)
    else c :: r

def hex2 (a b : Nat) : Nat := hexVal a * 16 + hexVal b

/-- interpreted string after the opening quote: `(value, input after the closing quote)` -/
def scanStr : Nat → Bytes → Bytes → Res (Bytes × Bytes)
  | 0, _, _ => .unsup
  | f + 1, s, acc =>
    match s with
    | [] => .err
    | 34 :: r => .ok (acc, r)
    | 10 :: _ => .err
    | 92 :: e :: r =>
      if e == 97 then scanStr f r (acc ++ [7])
      else if e == 98 then scanStr f r (acc ++ [8])
      else if e == 102 then scanStr f r (acc ++ [12])
      else if e == 110 then scanStr f r (acc ++ [10])
      else if e == 114 then scanStr f r (acc ++ [13])
      else if e == 116 then scanStr f r (acc ++ [9])
      else if e == 118 then scanStr f r (acc ++ [11])
      else if e == 92 then scanStr f r (acc ++ [92])
      else if e == 34 then scanStr f r (acc ++ [34])
      else if e == 120 then
        (match r with
         | a :: b :: r' => if isHex a && isHex b then scanStr f r' (acc ++ [hex2 a b]) else .err
         | _ => .err)
      else if e == 117 then
        (match r with
         | a :: b :: c :: d :: r' =>
           if isHex a && isHex b && isHex c && isHex d then
             scanStr f r' (acc ++ Utf8.encodeRune (hex2 a b * 256 + hex2 c d))
           else .err
         | _ => .err)
      else if e == 85 then
        (match r with
         | a :: b :: c :: d :: a' :: b' :: c' :: d' :: r' =>
           if isHex a && isHex b && isHex c && isHex d && isHex a' && isHex b' && isHex c' && isHex d' then
             let v := (hex2 a b * 256 + hex2 c d) * 65536 + (hex2 a' b' * 256 + hex2 c' d')
             -- strutil.Unquote accumulates the value in an int32: from 0x80000000 on it is negative, passes
             -- the range check and is appended as its low byte (a library quirk, mirrored)
             if v ≥ 0x80000000 then scanStr f r' (acc ++ [v % 256])
             else if v > 0x10FFFF then .err else scanStr f r' (acc ++ Utf8.encodeRune v)
           else .err
         | _ => .err)
      else if isOct e then
        (match r with
         | a :: b :: r' =>
           if isOct a && isOct b then
             let v := (e - 48) * 64 + (a - 48) * 8 + (b - 48)
             if v > 255 then .err else scanStr f r' (acc ++ [v])
           else .err
         | _ => .err)
      else .err
    | 92 :: [] => .err
    | c :: r => scanStr f r (acc ++ [c])

/-- raw string after the opening backquote -/
def scanRaw : Bytes → Bytes → Option (Bytes × Bytes)
  | [], _ => none
  | 96 :: r, acc => some (acc, r)
  | c :: r, acc => scanRaw r (acc ++ [c])

def isDurRune (c : Nat) : Bool := c == 110 || c == 117 || c == 109 || c == 115 || c == 104 || c == 100 || c == 119 || c == 121
def isBytesRune (c : Nat) : Bool :=
  c == 98 || c == 66 || c == 105 || c == 107 || c == 75 || c == 77 || c == 103 || c == 71 || c == 116 || c == 84 || c == 112 || c == 80
def isUnitRune (c : Nat) : Bool := isDurRune c || isBytesRune c
def isValueRune (c : Nat) : Bool := Bytes.isDigit c || c == 46 || isUnitRune c

def bytesUnits : List String :=
  ["b", "kib", "kb", "mib", "mb", "gib", "gb", "tib", "tb", "pib", "pb", "eib", "eb", "ki", "k", "mi", "gi", "g", "ti", "t", "pi", "p", "ei", "e"]
def durUnits : List String := ["ns", "us", "ms", "s", "m", "h", "d", "w"]

/-- `scanner.scanNumber` on decimal literals: `(text, rest)`; `seenDot`: the text so far is `.` -/
def scanNum (s : Bytes) (seenDot : Bool) : Res (Bytes × Bytes) :=
  let ip := if seenDot then [] else s.takeWhile Bytes.isDigit
  let r1 := if seenDot then s else s.dropWhile Bytes.isDigit
  -- radix prefixes and digit separators are outside the model
  let radix := !seenDot && (match s with
    | 48 :: x :: _ => let l := Bytes.toLower x; l == 120 || l == 111 || l == 98
    | _ => false)
  if radix || r1.head? == some 95 then .unsup else
  let hasDot := seenDot || r1.head? == some 46
  let r2 := if !seenDot && r1.head? == some 46 then r1.drop 1 else r1
  let fp := if hasDot then r2.takeWhile Bytes.isDigit else []
  let r3 := if hasDot then r2.dropWhile Bytes.isDigit else r2
  if r3.head? == some 95 then .unsup else
  let mant := (if seenDot then [46] else ip ++ (if hasDot then [46] else [])) ++ fp
  match r3 with
  | e :: r4 =>
    let le := Bytes.toLower e
    if le == 101 then
      let (sign, r5) := match r4 with
        | 43 :: t => ([43], t)
        | 45 :: t => ([45], t)
        | t => ([], t)
      let ed := r5.takeWhile Bytes.isDigit
      let r6 := r5.dropWhile Bytes.isDigit
      if r6.head? == some 95 then .unsup
      else if ed.isEmpty then .err
      else .ok (mant ++ [e] ++ sign ++ ed, r6)
    else if le == 112 then .err
    else if !hasDot && ip.length > 1 && ip.head? == some 48 && ip.any (fun d => d ≥ 56) then .err
    else .ok (mant, r3)
  | [] =>
    if !hasDot && ip.length > 1 && ip.head? == some 48 && ip.any (fun d => d ≥ 56) then .err
    else .ok (mant, [])

/-- `lexerql.ScanUnit` after a number text: number, duration or bytes token -/
def scanUnit (text rest : Bytes) : Res (Tok × Bytes) :=
  match rest with
  | c :: _ =>
    if c ≥ 128 then .unsup else    -- `µ` is a unit rune
    if !isValueRune c then .ok (.num text, rest) else
    let consumed := rest.takeWhile isValueRune
    let rest' := rest.dropWhile isValueRune
    if (match rest' with | x :: _ => decide (x ≥ 128) | [] => false) then .unsup else
    let unit := (consumed.takeWhile isUnitRune).map Bytes.toLower
    let full := text ++ consumed
    if bytesUnits.any (fun u => Bytes.ofString u == unit) then
      (match Num.parseBytes full with
       | some _ => .ok (.bytes full, rest')
       | none => .err)
    else if durUnits.any (fun u => Bytes.ofString u == unit) then
      (match parseDurationText full with
       | some _ => .ok (.dur full, rest')
       | none => .err)
    else .err
  | [] => .ok (.num text, [])

/-- one token at the head of the input (no leading gap, input not empty) -/
def scanOne (s : Bytes) : Res (Tok × Bytes) :=
  match s with
  | [] => .err
  | c :: r =>
    if c ≥ 128 then .unsup
    else if c == 45 && r.head? == some 45 then
      let rest := r.dropWhile (fun x => isLetter x || x == 45)
      if (match rest with | x :: _ => decide (x ≥ 128) | [] => false) then .unsup else .ok (.kw .parserFlag, rest)
    else if isIdentStart c then
      let w := c :: r.takeWhile isIdentPart
      let rest := r.dropWhile isIdentPart
      if (match rest with | x :: _ => decide (x ≥ 128) | [] => false) then .unsup else
      match kwOf w with
      | none => .ok (.ident w, rest)
      | some k =>
        if isFunctionK k then
          let rest' := skipSpaceC (rest.length + 1) rest
          match rest' with
          | 40 :: _ => .ok (.kw k, rest')
          | 98 :: _ => .ok (.kw k, rest')
          | 119 :: _ => .ok (.kw k, rest')
          | x :: _ => if x ≥ 128 then .unsup else .ok (.ident w, rest')
          | [] => .ok (.ident w, rest')
        else .ok (.kw k, rest)
    else if Bytes.isDigit c then
      (match scanNum s false with
       | .ok (text, rest) => scanUnit text rest
       | .err => .err
       | .unsup => .unsup)
    else if c == 46 && (match r with | d :: _ => Bytes.isDigit d | [] => false) then
      (match scanNum r true with
       | .ok (text, rest) => scanUnit text rest
       | .err => .err
       | .unsup => .unsup)
    else if c == 34 then
      (match scanStr (r.length + 1) r [] with
       | .ok (v, rest) => .ok (.str v, rest)
       | .err => .err
       | .unsup => .unsup)
    else if c == 96 then
      (match scanRaw r [] with
       | some (v, rest) => .ok (.str v, rest)
       | none => .err)
    else
      let single : Res (Tok × Bytes) := match kwOf [c] with
        | some k => .ok (.kw k, r)
        | none => .err
      match r with
      | d :: r' =>
        (match kwOf [c, d] with
         | some k => .ok (.kw k, r')
         | none => single)
      | [] => single

def tokenizeFrom : Nat → Bytes → Res (List Tok)
  | 0, _ => .unsup
  | f + 1, s =>
    match skipGap (s.length + 1) s with
    | .err => .err
    | .unsup => .unsup
    | .ok [] => .ok []
    | .ok s' =>
      match scanOne s' with
      | .err => .err
      | .unsup => .unsup
      | .ok (t, rest) => (tokenizeFrom f rest).map (t :: ·)

/-- no NUL byte, well-formed UTF-8, no byte-order mark (`none`) -/
def validText : Nat → Bytes → Option Bool
  | 0, _ => none
  | _, [] => some true
  | f + 1, c :: r =>
    if c == 0 then some false
    else if c < 128 then validText f r
    else
      let d := Utf8.decodeRune (c :: r)
      if d.2 ≤ 1 then some false
      else if d.1 == 0xFEFF then none
      else validText f (r.drop (d.2 - 1))

/-- `lexer.Tokenize` -/
def tokenize (s : Bytes) : Res (List Tok) :=
  match validText (s.length + 1) s with
  | none => .unsup
  | some false =>
    -- the scanner reports the error but goes on; an unsupported construct may hide another error, which
    -- does not matter: the outcome is an error either way
    .err
  | some true => tokenizeFrom (s.length + 1) s

end Lexer
