import Verif.Model.KeyToLabel
import Verif.Env.Regex
/-! Model of `dockerlog.Querier` selection (internal/dockerlog/dockerlog.go): `getLabels`,
`containerLabels.Match`, `fetchContainers`, and the `LogsOptions` window of `openLog`.
Label maps are association lists in which the first binding of a key wins (`List.lookup`);
writing a key conses a new binding in front. -/
namespace Docker

abbrev Bytes := List Nat
abbrev Labels := List (Bytes × Bytes)

structure Container where
  id : Bytes
  names : List Bytes
  image : Bytes
  imageId : Bytes
  command : Bytes
  created : Bytes          -- strconv.FormatInt(ctr.Created, 10), rendered by the harness
  state : Bytes
  status : Bytes
  labels : List (Bytes × Bytes)   -- Docker labels in the order the runtime iterates the map
  deriving Repr

def str (s : String) : Bytes := s.toUTF8.toList.map (·.toNat)

/-- `strings.TrimPrefix(ctr.Names[0], "/")` -/
def name (c : Container) : Bytes :=
  match c.names with
  | [] => []
  | n :: _ => match n with
    | 47 :: rest => rest
    | _ => n

/-- the nine built-in labels, as written by the map literal in `getLabels` -/
def builtins (c : Container) : Labels :=
  [ (str "container", name c), (str "container_id", c.id), (str "container_name", name c),
    (str "container_image", c.image), (str "container_image_id", c.imageId),
    (str "container_command", c.command), (str "container_created", c.created),
    (str "container_state", c.state), (str "container_status", c.status) ]

/-- `getLabels`: built-ins, then every Docker label under its sanitised key; later writes win -/
def getLabels (c : Container) : Labels :=
  c.labels.foldl (fun acc kv => (KeyToLabel.run kv.1, kv.2) :: acc) (builtins c)

inductive Op | eq | ne | re | nre
  deriving DecidableEq, Repr

structure Matcher where
  label : Bytes
  op : Op
  value : Bytes
  re : Regex.Re         -- the parsed regex (meaningful for `re`/`nre`)

/-- `match(m, s)` with the regular expression compiled as `^(?:re)$`; `full` is the anchored
matcher (parameter of the theorems; `Regex.fullMatch` in the driver) -/
def evalOp (full : Regex.Re → Bytes → Bool) (m : Matcher) (s : Bytes) : Bool :=
  match m.op with
  | .eq => s == m.value
  | .ne => s != m.value
  | .re => full m.re s
  | .nre => !full m.re s

/-- value of a label, a missing label behaving as the empty string -/
def valueOf (ls : Labels) (k : Bytes) : Bytes := (ls.lookup k).getD []

/-- `containerLabels.Match` -/
def matchesAll (full : Regex.Re → Bytes → Bool) (ms : List Matcher) (ls : Labels) : Bool :=
  ms.all (fun m => evalOp full m (valueOf ls m.label))

/-- `fetchContainers`: the containers whose logs are opened, in inventory order -/
def select (full : Regex.Re → Bytes → Bool) (inv : List Container) (ms : List Matcher) : List Container :=
  inv.filter (fun c => matchesAll full ms (getLabels c))

/-- whole seconds of a nanosecond instant (`time.Time.Unix`, floor) -/
def unixSeconds (ns : Int) : Int := ns / 1000000000

/-- the window the engine hands to the querier: instant queries look back 30 s -/
def windowStart (instant : Bool) (start : Int) : Int := if instant then start - 30000000000 else start

structure LogsWindow where
  since : Int
  until_ : Int
  deriving DecidableEq, Repr

/-- `openLog`: `Since`/`Until` of the `ContainerLogs` request -/
def logsWindow (instant : Bool) (start end_ : Int) : LogsWindow :=
  ⟨unixSeconds (windowStart instant start), unixSeconds end_⟩

end Docker
