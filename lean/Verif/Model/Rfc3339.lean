import Verif.Base.Time
/-! Model of Go's `time.Parse(time.RFC3339Nano, s)` on its fast path `parseRFC3339`
(src/time/format_rfc3339.go): fixed-width date and time, optional `.` fraction (digits beyond
nine are dropped), `Z` or `±hh:mm`.  Strings the fast path rejects are `none` here; Go then falls
back to a lenient layout-driven parser which accepts a few more spellings (one-digit hour, comma
as fraction separator): the correspondence generator stays out of that class. -/
namespace Rfc3339
open Time

def isDigitB (b : Nat) : Bool := 48 ≤ b && b ≤ 57

/-- fixed-width unsigned decimal within `[lo, hi]` -/
def parseUint (bs : List Nat) (lo hi : Nat) : Option Nat :=
  if bs.all isDigitB then
    let x := bs.foldl (fun acc b => acc * 10 + (b - 48)) 0
    if lo ≤ x && x ≤ hi then some x else none
  else none

/-- the fraction digits scaled to nanoseconds (at most nine digits are used) -/
def fracNanos (ds : List Nat) : Nat :=
  let ds9 := ds.take 9
  ds9.foldl (fun acc b => acc * 10 + (b - 48)) 0 * 10 ^ (9 - ds9.length)

def parseZone (s : List Nat) : Option Int :=
  match s with
  | [90] => some 0                                      -- "Z"
  | [sg, h1, h2, c, m1, m2] =>
    if (sg == 43 || sg == 45) && c == 58 then
      match parseUint [h1, h2] 0 23, parseUint [m1, m2] 0 59 with
      | some hr, some mm =>
        let off : Int := ((hr * 60 + mm) * 60 : Nat)
        some (if sg == 45 then -off else off)
      | _, _ => none
    else none
  | _ => none

def parse (s : List Nat) : Option Int :=
  if s.length < 19 then none else
  match parseUint (s.take 4) 0 9999, parseUint ((s.drop 5).take 2) 1 12 with
  | some year, some month =>
    match parseUint ((s.drop 8).take 2) 1 (daysIn month year),
          parseUint ((s.drop 11).take 2) 0 23,
          parseUint ((s.drop 14).take 2) 0 59,
          parseUint ((s.drop 17).take 2) 0 59 with
    | some day, some hour, some min, some sec =>
      if s.getD 4 0 == 45 && s.getD 7 0 == 45 && s.getD 10 0 == 84 && s.getD 13 0 == 58 && s.getD 16 0 == 58 then
        let rest := s.drop 19
        let (nsec, rest) :=
          match rest with
          | 46 :: d :: tl =>
            if isDigitB d then
              let ds := (d :: tl).takeWhile isDigitB
              (fracNanos ds, (d :: tl).dropWhile isDigitB)
            else (0, rest)
          | _ => (0, rest)
        match parseZone rest with
        | some off => some (unixNano year month day hour min sec nsec - off * nsPerSec)
        | none => none
      else none
    | _, _, _, _ => none
  | _, _ => none

end Rfc3339
