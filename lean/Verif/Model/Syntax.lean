import Verif.Model.Metric
import Verif.Model.Flags
/-! Tokens and abstract syntax of LogQL as produced by `lexer.Tokenize` and `logql.Parse`
(internal/logql/lexer/token.go, internal/logql/*.go).  The syntax-level AST keeps texts (regex,
pattern, template, JSON path) as byte strings, like the Go AST. -/
namespace Syntax
open LogQL Metric

abbrev Bytes := List Nat

/-- fixed-spelling tokens (`lexer.tokens` table) -/
inductive K where
  | comma | dot | lbrace | rbrace | eq | neq | re | nre | pipeExact | pipeMatch | pipe | unwrap
  | lparen | rparen | by_ | without | bool | lbracket | rbracket | offset | on | ignoring | groupLeft | groupRight
  | or | and | unless | add | sub | mul | div | mod | pow | cmpEq | gt | gte | lt | lte
  | json | regexp | logfmt | unpack | pattern | labelFormat | lineFormat | ip | decolorize | distinct | drop | keep
  | rate | rateCounter | countOverTime | bytesRate | bytesOverTime | avgOverTime | sumOverTime | minOverTime | maxOverTime
  | stdvarOverTime | stddevOverTime | quantileOverTime | firstOverTime | lastOverTime | absentOverTime | vector
  | sum | avg | max | min | count | stddev | stdvar | bottomk | topk | sort | sortDesc | labelReplace
  | bytesConv | durationConv | durationSecondsConv | parserFlag
  deriving DecidableEq, Repr

inductive Tok where
  | ident (s : Bytes)
  | str (s : Bytes)            -- unquoted text
  | num (text : Bytes)
  | dur (text : Bytes)
  | bytes (text : Bytes)
  | kw (k : K)
  deriving DecidableEq, Repr

structure Matcher where
  label : Bytes
  op : StrOp
  value : Bytes
  deriving DecidableEq, Repr

inductive Pred where
  | bin (l : Pred) (isOr : Bool) (r : Pred)
  | paren (p : Pred)
  | matcher (m : Matcher)
  | num (label : Bytes) (op : CmpOp) (v : Rat)
  | dur (label : Bytes) (op : CmpOp) (ns : Int)
  | bytes (label : Bytes) (op : CmpOp) (n : Nat)
  | ip (label : Bytes) (op : CmpOp) (pat : Bytes)
  deriving Repr

inductive Stage where
  | lineFilter (op : StrOp) (value : Bytes) (ip : Bool)
  | json (labels : List Bytes) (exprs : List (Bytes × Bytes))
  | logfmt (labels : List Bytes) (exprs : List (Bytes × Bytes))
  | regexp (pattern : Bytes) (mapping : List (Nat × Bytes))
  | pattern (p : Bytes)
  | unpack
  | lineFormat (t : Bytes)
  | decolorize
  | labelFilter (p : Pred)
  | labelFormat (renames : List (Bytes × Bytes)) (tpls : List (Bytes × Bytes))   -- (dst, src) and (dst, template)
  | drop (labels : List Bytes) (ms : List Matcher)
  | keep (labels : List Bytes) (ms : List Matcher)
  | distinct (labels : List Bytes)
  deriving Repr

structure Grouping where
  without : Bool
  labels : List Bytes
  deriving DecidableEq, Repr

structure Unwrap where
  op : Bytes              -- "", "bytes", "duration", "duration_seconds"
  label : Bytes
  filters : List Matcher
  deriving DecidableEq, Repr

structure Modifier where
  bool : Bool := false
  op : Option Bool := none            -- some false = on, some true = ignoring
  opLabels : List Bytes := []
  group : Option Bool := none         -- some false = group_left, some true = group_right
  include_ : List Bytes := []
  deriving DecidableEq, Repr

inductive Expr where
  | log (sel : List Matcher) (stages : List Stage)
  | range (op : RangeOp) (param : Option Rat) (sel : List Matcher) (stages : List Stage) (rangeNs : Int)
      (offset : Option Int) (unwrap : Option Unwrap) (grouping : Option Grouping)
  | vagg (op : VecOp) (param : Option Int) (grouping : Option Grouping) (e : Expr)
  | bin (l : Expr) (op : BinOp) (m : Modifier) (r : Expr)
  | lit (v : Rat)
  | vector (v : Rat)
  | paren (e : Expr)
  | labelReplace (e : Expr) (dst repl src re : Bytes)
  deriving Repr

/-- what the parser needs to know about regular expressions: whether the text compiles and the names
of its capturing groups by index (`regexp.Compile`, `SubexpNames`) -/
structure ReEnv where
  ok : Bytes → Bool
  names : Bytes → List (Nat × Bytes)     -- (group index, name) for named groups

/-- `lexerql.ParseDuration`: Prometheus syntax first, then Go syntax -/
def parseDurationText (t : Bytes) : Option Int :=
  let r := match Flags.parsePromDuration t with
    | some d => some d
    | none => Num.parseDuration t
  -- both parsers report an overflow of int64 nanoseconds
  match r with
  | some d => if d > 9223372036854775807 ∨ d < -9223372036854775808 then none else some d
  | none => none

def rangeOpOf : K → Option RangeOp
  | .countOverTime => some .count | .rate => some .rate | .rateCounter => some .rateCounter
  | .bytesOverTime => some .bytes | .bytesRate => some .bytesRate | .avgOverTime => some .avg
  | .sumOverTime => some .sum | .minOverTime => some .min | .maxOverTime => some .max
  | .stdvarOverTime => some .stdvar | .stddevOverTime => some .stddev | .quantileOverTime => some .quantile
  | .firstOverTime => some .first | .lastOverTime => some .last | .absentOverTime => some .absent
  | _ => none

def vecOpOf : K → Option VecOp
  | .sum => some .sum | .avg => some .avg | .count => some .count | .max => some .max | .min => some .min
  | .stddev => some .stddev | .stdvar => some .stdvar | .bottomk => some .bottomk | .topk => some .topk
  | .sort => some .sort | .sortDesc => some .sortDesc
  | _ => none

def binOpOf : K → Option BinOp
  | .or => some .or | .and => some .and | .unless => some .unless | .add => some .add | .sub => some .sub
  | .mul => some .mul | .div => some .div | .mod => some .mod | .pow => some .pow | .cmpEq => some .eq
  | .neq => some .ne | .gt => some .gt | .gte => some .ge | .lt => some .lt | .lte => some .le
  | _ => none

end Syntax
