import Verif.Base.Utf8
/-! Model of `otelstorage.KeyToLabel` (internal/otelstorage/attrs.go) at byte level:
the fast loop that returns the key itself when nothing has to change, and the `slow:` loop.
Also `logql.IsValidLabel` (internal/logql/label.go) without dots. -/
namespace KeyToLabel
open Utf8

def isDigit (r : Nat) : Bool := 48 ≤ r && r ≤ 57
def isAlpha (r : Nat) : Bool := (97 ≤ r && r ≤ 122) || (65 ≤ r && r ≤ 90)
def isIdent (r : Nat) : Bool := r == 95 || isDigit r || isAlpha r
def isIdentStart (r : Nat) : Bool := r == 95 || isAlpha r

/-- one iteration of the `slow:` loop: `WriteRune(r)` for identifier runes, `_` otherwise -/
def replRune (r : Nat) : List Nat := if isIdent r then encodeRune r else [95]

/-- the `slow:` loop -/
def slow (key : List Nat) : List Nat := (runes key).flatMap replRune

/-- the fast loop; `pre` is `key[:i]`, `first` is `i == 0`.  Identifier runes are ASCII,
so the loop advances by one byte in the branches that continue. -/
def fast (first : Bool) (pre : List Nat) : List Nat → List Nat
  | [] => pre
  | b :: rest =>
    if isDigit (decodeRune (b :: rest)).1 then
      if first then 95 :: slow (b :: rest)
      else fast false (pre ++ [b]) rest
    else if (decodeRune (b :: rest)).1 == 95 || isAlpha (decodeRune (b :: rest)).1 then
      fast false (pre ++ [b]) rest
    else pre ++ slow (b :: rest)

def run (key : List Nat) : List Nat := fast true [] key

/-- `logql.IsValidLabel(s, allowDot)`: non-empty, first *byte* an identifier start, every rune an
identifier rune (or a dot when allowed) -/
def isValidLabel (allowDot : Bool) (s : List Nat) : Bool :=
  match s with
  | [] => false
  | b :: _ => isIdentStart b && (runes s).all (fun r => isIdent r || (allowDot && r == 46))

end KeyToLabel
