import Verif.Model.LogEval
/-! Model of the metric path of `logqlengine` / `logqlmetric`: sample extraction (`sampler.go`),
aggregated labels and grouping (`aggregated_labels.go`), the sliding-window range aggregation
(`range_agg.go`, `step.go`), vector aggregations (`vector_agg.go`, `stream_aggregator.go`), binary
operations (`bin_op.go`, `sample_op.go`, `vector.go`) and `ReadStepResponse`.

Values are exact: `Val` is a rational, NaN, ±Inf, or the square root of a rational (only
`stddev*` produce it).  Series are identified by their visible label set (the grouping key of the
code is a hash of it; `Props/C10` states what that needs). -/
namespace Metric
open LogQL

inductive Val where
  | q (r : Rat)
  | nan
  | pinf
  | ninf
  | sqrt (r : Rat)      -- √r for r ≥ 0, produced by stddev; arithmetic on it is outside the model
  | unk                 -- outside the model
  deriving Repr, DecidableEq

namespace Val
def ofNat (n : Nat) : Val := .q n

def add : Val → Val → Val
  | .q a, .q b => .q (a + b)
  | .nan, _ | _, .nan => .nan
  | _, _ => .unk
def sub : Val → Val → Val
  | .q a, .q b => .q (a - b)
  | .nan, _ | _, .nan => .nan
  | _, _ => .unk
def mul : Val → Val → Val
  | .q a, .q b => .q (a * b)
  | .nan, _ | _, .nan => .nan
  | _, _ => .unk
/-- `x / 0` is NaN by the code's explicit test -/
def div : Val → Val → Val
  | .q a, .q b => if b = 0 then .nan else .q (a / b)
  | _, .q b => if b = 0 then .nan else .unk
  | .nan, _ | _, .nan => .nan
  | _, _ => .unk
/-- `math.Mod`: result has the sign of the dividend; `x % 0` is NaN -/
def mod : Val → Val → Val
  | .q a, .q b =>
    if b = 0 then .nan else
    let t := a / b
    let tr : Int := if t ≥ 0 then t.floor else -((-t).floor)
    .q (a - b * (tr : Rat))
  | _, .q b => if b = 0 then .nan else .unk
  | .nan, _ | _, .nan => .nan
  | _, _ => .unk
/-- `math.Pow` for integer exponents (anything else is outside the model) -/
def pow : Val → Val → Val
  | .q a, .q b =>
    if b.den = 1 then
      -- exponents beyond 64 (or huge bases) leave the exactly representable range: outside the model
      if b.num.natAbs > 64 || a.num.natAbs > 1000000 || a.den > 1000000 then .unk
      else if b.num ≥ 0 then .q (a ^ b.num.toNat)
      else if a = 0 then .pinf else .q (1 / a ^ (-b.num).toNat)
    else .unk
  | _, _ => .unk

/-- comparison results: `none` when outside the model -/
def cmp (f : Rat → Rat → Bool) (nanResult : Bool) : Val → Val → Option Bool
  | .q a, .q b => some (f a b)
  | .nan, _ | _, .nan => some nanResult
  | _, _ => none

def lt (a b : Val) : Bool :=
  match a, b with
  | .q x, .q y => x < y
  | .ninf, .q _ | .q _, .pinf | .ninf, .pinf => true
  | _, _ => false

end Val

inductive BinOp | or | and | unless | add | sub | mul | div | mod | pow | eq | ne | gt | ge | lt | le
  deriving DecidableEq, Repr

inductive RangeOp | count | rate | bytes | bytesRate | avg | sum | min | max | stdvar | stddev | quantile | first | last | absent | rateCounter
  deriving DecidableEq, Repr

inductive VecOp | sum | avg | count | max | min | stddev | stdvar | topk | bottomk | sort | sortDesc
  deriving DecidableEq, Repr

structure Grouping where
  without : Bool
  labels : List Bytes
  deriving Repr

inductive Conv | none | bytes | duration
  deriving DecidableEq, Repr

structure Unwrap where
  conv : Conv
  label : Bytes
  filters : List StrMatcher
  deriving Repr

inductive Expr where
  | range (op : RangeOp) (param : Option Rat) (q : LogQuery) (rangeNs : Int) (offsetNs : Int)
      (unwrap : Option Unwrap) (grouping : Option Grouping)
  | vagg (op : VecOp) (param : Option Int) (grouping : Option Grouping) (e : Expr)
  | bin (op : BinOp) (boolMod : Bool) (hasModifier : Bool) (l r : Expr)
  | lit (v : Rat)
  | vector (v : Rat)
  deriving Repr

/-! ### aggregated labels -/

structure AggLabels where
  entries : Labels
  without : List Bytes
  by_ : Option (List Bytes)
  deriving Repr

def AggLabels.visible (a : AggLabels) : Labels :=
  a.entries.filter fun kv =>
    !(a.without.any (· == kv.1)) && (match a.by_ with | none => true | some b => b.any (· == kv.1))

/-- `By`: restrict to the given labels *among those still visible* (removed labels cannot reappear) -/
def AggLabels.by (a : AggLabels) (ls : List Bytes) : AggLabels :=
  { a with by_ := some (match a.by_ with
      | none => ls
      | some b => ls.filter (fun l => b.any (· == l))) }

/-- `Without` -/
def AggLabels.wo (a : AggLabels) (ls : List Bytes) : AggLabels :=
  if ls.isEmpty then a else { a with without := a.without ++ ls }

def applyGrouping (g : Option Grouping) (dflt : AggLabels → AggLabels) (a : AggLabels) : AggLabels :=
  match g with
  | none => dflt a
  | some g => if g.without then a.wo g.labels else a.by g.labels

/-! ### samples -/

structure Smp where
  ts : Int
  v : Val
  set : AggLabels
  deriving Repr

/-- `sampleExtractor.Extract` -/
def extract (env : Env) (op : RangeOp) (uw : Option Unwrap) (e : Entry) : Option Val :=
  match op with
  | .count | .rate | .absent => some (.q 1)     -- `rate` counts lines even when an unwrap is given (as coded)
  | .bytes | .bytesRate => some (.q e.line.length)
  | _ =>
    match uw with
    | none => none
    | some u => unwrapVal env u e
where
  unwrapVal (env : Env) (u : Unwrap) (e : Entry) : Option Val :=
    match Labels.get? e.labels u.label with
    | none => none
    | some txt =>
      let v : Val := match u.conv with
        | .none => (env.parseFloat txt).elim (.q 0) .q
        | .bytes => (env.parseBytes txt).elim (.q 0) (fun n => .q n)
        | .duration => (env.parseDuration txt).elim (.q 0) (fun ns => .q ((ns : Rat) / 1000000000))
      if u.filters.all (fun m => m.sat env e.labels) then some v else none

/-- `sampleIterator`: entries of the log pipeline turned into samples -/
def samplesOf (env : Env) (op : RangeOp) (uw : Option Unwrap) (g : Option Grouping) (es : List Entry) : List Smp :=
  es.filterMap fun e =>
    (extract env op uw e).map fun v =>
      ⟨e.ts, v, ⟨e.labels,
        (match g with | some ⟨true, ls⟩ => ls | _ => []),
        (match g with | some ⟨false, ls⟩ => some ls | _ => none)⟩⟩

/-! ### aggregators -/

def sumVals (vs : List Val) : Val := vs.foldl Val.add (.q 0)

/-- values the ordering of the model covers: rationals and NaN -/
def Val.ordered : Val → Bool
  | .q _ | .nan => true
  | _ => false

def minVal (vs : List Val) : Val :=
  if !vs.all Val.ordered then .unk else
  match vs with
  | [] => .q 0
  | v :: rest => rest.foldl (fun m x => if x == .nan then x else if Val.lt x m then x else m) v

def maxVal (vs : List Val) : Val :=
  if !vs.all Val.ordered then .unk else
  match vs with
  | [] => .q 0
  | v :: rest => rest.foldl (fun m x => if x == .nan then x else if Val.lt m x then x else m) v

def ratsOf (vs : List Val) : Option (List Rat) :=
  vs.foldr (fun v acc => match v, acc with
    | .q r, some l => some (r :: l)
    | _, _ => none) (some [])

/-- running mean `avg += (v - avg) / count` (exact over `Rat`: the arithmetic mean) -/
def avgVal (vs : List Val) : Val :=
  match ratsOf vs with
  | some rs => if rs.isEmpty then .q 0 else .q (rs.foldl (· + ·) 0 / rs.length)
  | none => if vs.any (· == .nan) then .nan else .unk

/-- Welford's update as coded; `m2 / count` -/
def stdvarVal (vs : List Val) : Val :=
  match ratsOf vs with
  | some rs =>
    if rs.isEmpty then .nan else
    let st := rs.foldl (fun (st : Rat × Rat × Rat) v =>
      let count := st.1 + 1
      let delta := v - st.2.1
      let mean := st.2.1 + delta / count
      let delta2 := v - mean
      (count, mean, st.2.2 + delta * delta2)) (0, 0, 0)
    .q (st.2.2 / st.1)
  | none => if vs.any (· == .nan) then .nan else .unk

def stddevVal (vs : List Val) : Val :=
  match stdvarVal vs with
  | .q r => if r == 0 then .q 0 else .sqrt r
  | v => v

def insertRat (x : Rat) : List Rat → List Rat
  | [] => [x]
  | y :: ys => if x < y then x :: y :: ys else y :: insertRat x ys

/-- `quantile` from prom_math.go -/
def quantileVal (p : Rat) (vs : List Val) : Val :=
  if vs.isEmpty then .nan
  else if p < 0 then .ninf
  else if p > 1 then .pinf
  else match ratsOf vs with
    | none => .unk
    | some rs =>
      let sorted := rs.foldl (fun acc x => insertRat x acc) []
      let n : Nat := sorted.length
      let rank : Rat := p * ((n : Rat) - 1)
      let lo : Nat := rank.floor.toNat
      let hi : Nat := min (n - 1) (lo + 1)
      let w : Rat := rank - (rank.floor : Rat)
      .q (sorted.getD lo 0 * (1 - w) + sorted.getD hi 0 * w)

/-- batch aggregation of one series' points in arrival order -/
def aggregate (op : RangeOp) (param : Option Rat) (rangeNs : Int) (hasUnwrap : Bool) (vs : List Val) : Val :=
  let secs : Rat := (rangeNs : Rat) / 1000000000
  match op with
  | .count => .q vs.length
  | .rate => if hasUnwrap then Val.div (sumVals vs) (.q secs) else Val.div (.q vs.length) (.q secs)
  | .bytes | .sum => sumVals vs
  | .bytesRate => Val.div (sumVals vs) (.q secs)
  | .avg => avgVal vs
  | .min => minVal vs
  | .max => maxVal vs
  | .stdvar => stdvarVal vs
  | .stddev => stddevVal vs
  | .quantile => quantileVal (param.getD 0) vs
  | .first => vs.headD (.q 0)
  | .last => vs.getLastD (.q 0)
  | .absent | .rateCounter => .unk

def RangeOp.supported : RangeOp → Bool
  | .absent | .rateCounter => false
  | _ => true

/-! ### grouping by visible label set -/

structure Sample where
  set : AggLabels
  v : Val
  deriving Repr

def sameSet (a b : AggLabels) : Bool := sameLabels a.visible b.visible

/-- group values by label set, groups in first-arrival order, members in arrival order -/
def groupBySet {α} (key : α → AggLabels) : List α → List (AggLabels × List α)
  | [] => []
  | x :: xs =>
    let rest := groupBySet key xs
    -- prepend x to its group if it exists later, keeping first-arrival order
    match rest.find? (fun g => sameSet g.1 (key x)) with
    | some _ => (key x, x :: (rest.filter (fun g => sameSet g.1 (key x))).flatMap (·.2)) ::
                  rest.filter (fun g => !sameSet g.1 (key x))
    | none => (key x, [x]) :: rest

/-! ### the step grid and the sliding window -/

/-- `stepper`: start, start+step, … ≤ end (fuel-bounded; `step > 0`) -/
def grid (start end_ step : Int) : List Int :=
  if step ≤ 0 then (if start ≤ end_ then [start] else [])
  else (List.range ((end_ - start) / step + 1).toNat).map (fun (k : Nat) => start + step * (k : Int))

/-- `fillWindow` -/
def fill (ws we : Int) : List Smp → List Smp → List Smp × List Smp
  | w, [] => (w, [])
  | w, e :: rest =>
    if e.ts > we then (w, e :: rest)
    else if e.ts < ws then fill ws we w rest
    else fill ws we (w ++ [e]) rest

/-- `clearWindow`: evict points strictly before the window start -/
def clear (ws : Int) (w : List Smp) : List Smp := w.filter (fun p => !(decide (p.ts < ws)))

structure Step where
  t : Int
  samples : List Sample
  deriving Repr

/-- `rangeAggIterator.Next` iterated over the grid; `T` ranges over the shifted grid (T − offset),
the step is stamped with the unshifted time -/
def rangeRun (op : RangeOp) (param : Option Rat) (rangeNs offsetNs : Int) (hasUnwrap : Bool)
    (regroup : AggLabels → AggLabels) : List Int → List Smp → List Smp → List Step
  | [], _, _ => []
  | T :: ts, window, pending =>
    let w1 := clear (T - rangeNs) window
    let r := fill (T - rangeNs) T w1 pending
    let groups := groupBySet (fun s : Smp => regroup s.set) r.1
    ⟨T + offsetNs, groups.map fun g => ⟨g.1, aggregate op param rangeNs hasUnwrap (g.2.map (·.v))⟩⟩ ::
      rangeRun op param rangeNs offsetNs hasUnwrap regroup ts r.1 r.2

/-! ### vector aggregation -/

def vecAggregate (op : VecOp) (vs : List Val) : Val :=
  match op with
  | .sum => sumVals vs
  | .avg => avgVal vs
  | .count => .q vs.length
  | .max => maxVal vs
  | .min => minVal vs
  | .stdvar => stdvarVal vs
  | .stddev => stddevVal vs
  | _ => .unk

def insertSample (less : Val → Val → Bool) (x : Sample) : List Sample → List Sample
  | [] => [x]
  | y :: ys => if less x.v y.v then x :: y :: ys else y :: insertSample less x ys

def sortSamples (less : Val → Val → Bool) (xs : List Sample) : List Sample :=
  xs.foldl (fun acc x => insertSample less x acc) []

def vecStep (op : VecOp) (param : Option Int) (g : Option Grouping) (s : Step) : Step :=
  let regroup := applyGrouping g (fun a => a.by [])
  match op with
  | .topk | .bottomk | .sort | .sortDesc =>
    let asc := op == .bottomk || op == .sort
    let less : Val → Val → Bool := if asc then Val.lt else (fun a b => Val.lt b a)
    let limit : Int := match op with | .sort | .sortDesc => -1 | _ => param.getD (-1)
    if limit == 0 then ⟨s.t, []⟩ else
    let groups := groupBySet (fun x : Sample => regroup x.set) s.samples
    ⟨s.t, groups.flatMap fun grp =>
      let sorted := sortSamples less grp.2
      if limit < 0 then sorted else sorted.take limit.toNat⟩
  | _ =>
    let groups := groupBySet (fun x : Sample => regroup x.set) s.samples
    ⟨s.t, groups.map fun grp => ⟨grp.1, vecAggregate op (grp.2.map (·.v))⟩⟩

/-! ### binary operations -/

def boolOp (holds : Bool) (filter : Bool) : Option Val :=
  if holds then some (.q 1) else if filter then none else some (.q 0)

/-- `buildSampleBinOp`: value and whether the sample is kept -/
def sampleOp (op : BinOp) (boolMod : Bool) (l r : Val) : Option Val :=
  match op with
  | .add => some (Val.add l r)
  | .sub => some (Val.sub l r)
  | .mul => some (Val.mul l r)
  | .div => some (Val.div l r)
  | .mod => some (Val.mod l r)
  | .pow => some (Val.pow l r)
  | .eq => (Val.cmp (fun a b => a == b) false l r).elim (some .unk) (boolOp · boolMod)
  | .ne => (Val.cmp (fun a b => a != b) true l r).elim (some .unk) (boolOp · boolMod)
  | .gt => (Val.cmp (fun a b => b < a) false l r).elim (some .unk) (boolOp · boolMod)
  | .ge => (Val.cmp (fun a b => !(a < b)) false l r).elim (some .unk) (boolOp · boolMod)
  | .lt => (Val.cmp (fun a b => a < b) false l r).elim (some .unk) (boolOp · boolMod)
  | .le => (Val.cmp (fun a b => !(b < a)) false l r).elim (some .unk) (boolOp · boolMod)
  | _ => some .unk

def BinOp.isSet : BinOp → Bool
  | .and | .or | .unless => true
  | _ => false

/-- `binOpIterator.Next` / `mergeBinOpIterator.Next` on one pair of steps -/
def binStep (op : BinOp) (boolMod : Bool) (l r : Step) : Step :=
  match op with
  | .and => ⟨l.t, if l.samples.isEmpty || r.samples.isEmpty then [] else
      l.samples.filter fun s => r.samples.any (fun x => sameSet x.set s.set)⟩
  | .or => ⟨l.t, if l.samples.isEmpty then r.samples else if r.samples.isEmpty then l.samples else
      l.samples ++ r.samples.filter fun s => !l.samples.any (fun x => sameSet x.set s.set)⟩
  | .unless => ⟨l.t, if l.samples.isEmpty || r.samples.isEmpty then l.samples else
      l.samples.filter fun s => !r.samples.any (fun x => sameSet x.set s.set)⟩
  | _ =>
    ⟨l.t, r.samples.filterMap fun rs =>
      -- the left sample with the same label set (the last one wins in the code's map)
      match (l.samples.filter (fun x => sameSet x.set rs.set)).getLast? with
      | none => none
      | some ls => (sampleOp op boolMod ls.v rs.v).map fun v => ⟨ls.set, v⟩⟩

def litStep (op : BinOp) (boolMod : Bool) (c : Rat) (litLeft : Bool) (s : Step) : Step :=
  ⟨s.t, s.samples.filterMap fun x =>
    (if litLeft then sampleOp op boolMod (.q c) x.v else sampleOp op boolMod x.v (.q c)).map fun v => ⟨x.set, v⟩⟩

/-! ### evaluation -/

structure Params where
  start : Int
  end_ : Int
  step : Int          -- 0 for instant queries
  deriving Repr

inductive Err | build | unsupported
  deriving DecidableEq, Repr

def emptySet : AggLabels := ⟨[], [], none⟩

def zipSteps (f : Step → Step → Step) : List Step → List Step → List Step
  | l :: ls, r :: rs => f l r :: zipSteps f ls rs
  | _, _ => []

/-- `logqlmetric.build` + iteration: the list of steps -/
def eval (env : Env) (recs : List Rec) (p : Params) : Expr → Except Err (List Step)
  | .range op param q rangeNs offsetNs uw g =>
    if !(q.stages.all Stage.buildOk) then .error .build
    else if !op.supported then .error .unsupported
    else
      match specEntries env q recs (-1) with
      | .error _ => .error .build
      | .ok es =>
        let smps := samplesOf env op uw g es
        let step := if p.step == 0 then 1000000000 else p.step
        let ts := grid (p.start - offsetNs) (p.end_ - offsetNs) step
        .ok (rangeRun op param rangeNs offsetNs uw.isSome (applyGrouping g id) ts [] smps)
  | .vagg op param g e =>
    match eval env recs p e with
    | .error er => .error er
    | .ok steps => .ok (steps.map (vecStep op param g))
  | .bin op boolMod hasModifier l r =>
    match l, r with
    | .lit c, r' =>
      (match eval env recs p r' with
       | .error er => .error er
       | .ok steps => .ok (steps.map (litStep op boolMod c true)))
    | l', .lit c =>
      (match eval env recs p l' with
       | .error er => .error er
       | .ok steps => .ok (steps.map (litStep op boolMod c false)))
    | l', r' =>
      match eval env recs p l' with
      | .error er => .error er
      | .ok ls =>
        match eval env recs p r' with
        | .error er => .error er
        | .ok rs => if hasModifier then .error .unsupported else .ok (zipSteps (binStep op boolMod) ls rs)
  | .lit _ => .error .unsupported
  | .vector v =>
    .ok ((grid p.start p.end_ p.step).map fun t => ⟨t, [⟨emptySet, .q v⟩]⟩)

/-! ### `ReadStepResponse` -/

structure Series where
  labels : Labels
  points : List (Int × Val)
  deriving Repr

/-- instant: the first step as a vector; range: the matrix keyed by label set (first-arrival order) -/
def readSteps (instant : Bool) (steps : List Step) : List Series :=
  if instant then
    match steps with
    | [] => []
    | s :: _ => s.samples.map fun x => ⟨x.set.visible, [(s.t, x.v)]⟩
  else
    let pts : List (AggLabels × Int × Val) := steps.flatMap fun s => s.samples.map fun x => (x.set, s.t, x.v)
    (groupBySet (fun p : AggLabels × Int × Val => p.1) pts).map fun g => ⟨g.1.visible, g.2.map (·.2)⟩

end Metric
