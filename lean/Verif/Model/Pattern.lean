import Verif.Base.Bytes
/-! Model of `logqlpattern.Match` (internal/logql/logqlengine/logqlpattern/match.go) and of the
static checks of `logqlpattern.Parse`. -/
namespace Pattern

inductive Part
  | lit (v : List Nat)
  | cap (name : List Nat)
  deriving DecidableEq, Repr

def Part.value : Part → List Nat
  | .lit v => v
  | .cap _ => []

def Part.isCap : Part → Bool
  | .cap _ => true
  | .lit _ => false

def underscore : List Nat := [95]

/-- the checks `Parse` performs after scanning: non-empty, at least one capture, no duplicate
capture names other than `_`, no two consecutive captures -/
def valid (ps : List Part) : Bool :=
  !ps.isEmpty && ps.any Part.isCap &&
  (let names := ps.filterMap fun p => match p with
      | .cap n => if n == underscore then none else some n
      | .lit _ => none
   names.Nodup) &&
  (ps.zip ps.tail).all (fun pq => !(pq.1.isCap && pq.2.isCap))

/-- `strings.Cut(input, sep)`: (before, found); before = whole input when not found -/
def cutBefore (input sep : List Nat) : List Nat × Bool :=
  match Bytes.cut input sep with
  | some (x, _) => (x, true)
  | none => (input, false)

/-- mirrors `Match`: the labels written, in order, and whether the whole pattern matched -/
def matchP : List Part → List Nat → List (List Nat × List Nat) × Bool
  | [], _ => ([], true)
  | .lit v :: ps, input =>
    match Bytes.cutPrefix input v with
    | none => ([], false)
    | some rest => matchP ps rest
  | .cap n :: ps, input =>
    match ps with
    | [] => (if n == underscore then [] else [(n, input)], true)
    | next :: _ =>
      let c := cutBefore input next.value
      let here := if n == underscore then [] else [(n, c.1)]
      if c.2 then (here ++ (matchP ps (input.drop c.1.length)).1, (matchP ps (input.drop c.1.length)).2)
      else (here, false)

end Pattern
