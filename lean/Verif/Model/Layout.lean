import Verif.Model.Lexer
import Verif.Model.Parser
/-! Writing a token list as text in an arbitrary layout, and the conditions under which the lexer model
reads the same tokens back (C05: independence of insignificant white space, comments and quoting
style).

* `Gap` — what may stand between two tokens: white space and the three kinds of comments;
* `Piece` — a token together with the text chosen for it (`spellOK`: identifiers, keywords and
  operators by their spelling; numbers / durations / byte sizes by any text that lexes alone to that
  token; strings in three quoting styles) and the gap written after it;
* `followOK t tail` — the text after the token does not continue it (maximal munch) and, for a function
  name, shows `(` / `b…` / `w…` after spaces and `#` comments;
* `render`, `Sep` — the text of a list of pieces and the separation condition along it. -/
namespace Layout
open Syntax Lexer

inductive GapItem where
  | ws (c : Nat)                 -- tab, line feed, carriage return or space
  | hash (text : Bytes)          -- `#` comment up to and including the line feed
  | line (text : Bytes)          -- `//` comment up to and including the line feed
  | block (text : Bytes)         -- `/* … */`
  deriving Repr, DecidableEq

abbrev Gap := List GapItem

def GapItem.bytes : GapItem → Bytes
  | .ws c => [c]
  | .hash t => 35 :: t ++ [10]
  | .line t => 47 :: 47 :: t ++ [10]
  | .block t => 47 :: 42 :: t ++ [42, 47]

/-- no `*/` inside -/
def noClose : Bytes → Bool
  | 42 :: 47 :: _ => false
  | _ :: r => noClose r
  | [] => true

def GapItem.ok : GapItem → Bool
  | .ws c => isWs c
  | .hash t => t.all (fun b => b != 10 && b != 0 && b < 128)
  | .line t => t.all (fun b => b != 10 && b != 0 && b < 128)
  | .block t => noClose t && t.all (fun b => b != 0 && b < 128)

def gapBytes (g : Gap) : Bytes := (g.map GapItem.bytes).flatten

def hexDigit (n : Nat) : Nat := if n < 10 then 48 + n else 87 + n

def escByte (b : Nat) : Bytes := [92, 120, hexDigit (b / 16), hexDigit (b % 16)]

/-- bytes that may stand for themselves inside an interpreted string -/
def plainByte (b : Nat) : Bool := 32 ≤ b && b < 127 && b != 34 && b != 92

inductive StrStyle where
  | escaped      -- every byte as \xHH
  | raw          -- between backquotes (the value must not contain one)
  | plain        -- printable ASCII as is, everything else as \xHH
  deriving Repr, DecidableEq

def spellStr (st : StrStyle) (v : Bytes) : Bytes :=
  match st with
  | .escaped => 34 :: (v.map escByte).flatten ++ [34]
  | .raw => 96 :: v ++ [96]
  | .plain => 34 :: (v.map fun b => if plainByte b then [b] else escByte b).flatten ++ [34]

def spellKw (k : K) : Bytes := ((kwBytes.find? (fun p => p.2 == k)).map (·.1)).getD []

structure Piece where
  tok : Tok
  text : Bytes
  gap : Gap
  deriving Repr

def isWordByte (c : Nat) : Bool := isIdentPart c

/-- the text is an admissible writing of the token -/
def spellOK (p : Piece) : Bool :=
  match p.tok with
  | .ident w =>
    p.text == w && (match w with | c :: r => isIdentStart c && r.all isIdentPart | [] => false) && (kwOf w).isNone
  | .kw k => k != .parserFlag && p.text == spellKw k && !p.text.isEmpty
  | .str v =>
    v.all (· < 256) &&
    (p.text == spellStr .escaped v || p.text == spellStr .plain v ||
     (p.text == spellStr .raw v && !v.contains 96 && v.all (fun b => b != 0 && b < 128)))
  | .num _ | .dur _ | .bytes _ =>
    (match scanOne p.text with
     | .ok (t, []) => t == p.tok
     | _ => false)

/-- what follows the token's text does not extend it -/
def followOK (p : Piece) (tail : Bytes) : Bool :=
  (match tail with | c :: _ => decide (c < 128) | [] => true) &&
  (match p.tok with
   | .ident _ => (match tail with | c :: _ => !isIdentPart c | [] => true)
   | .kw k =>
     (match p.text with
      | c :: rest =>
        if isIdentStart c then
          -- a word: not continued; a function name must be followed by `(`, `b…` or `w…`
          (match tail with | d :: _ => !isIdentPart d | [] => true) &&
          (!isFunctionK k ||
            (match skipSpaceC (tail.length + 1) tail with
             | 40 :: _ => true
             | 98 :: _ => true
             | 119 :: _ => true
             | _ => false))
        else if rest.isEmpty then
          -- a one-character operator: no two-character operator, comment, flag or number arises
          (match tail with
           | d :: _ => (kwOf [c, d]).isNone && !(c == 47 && (d == 47 || d == 42)) && !(c == 45 && d == 45) &&
                       !(c == 46 && Bytes.isDigit d)
           | [] => true)
        else true
      | [] => false)
   | .str _ => true
   | .num _ | .dur _ | .bytes _ => (match tail with | c :: _ => !isIdentPart c && c != 46 | [] => true))

def render : List Piece → Bytes
  | [] => []
  | p :: r => p.text ++ gapBytes p.gap ++ render r

def Sep : List Piece → Bool
  | [] => true
  | p :: r => followOK p (gapBytes p.gap ++ render r) && Sep r

def piecesOK (ps : List Piece) : Bool :=
  ps.all (fun p => spellOK p && p.gap.all GapItem.ok)

/-- `logql.Parse` on text: the lexer model followed by the parser model -/
def parseText (re : ReEnv) (prec : Metric.BinOp → Nat) (isLogic : Metric.BinOp → Bool) (s : Bytes) : Res Expr :=
  match tokenize s with
  | .ok toks => (match Parser.parse re prec isLogic toks with | some e => .ok e | none => .err)
  | .err => .err
  | .unsup => .unsup

end Layout
