import Verif.Lemmas.C06
import Verif.Lemmas.C06Writers
import Verif.Driver.ExecEnv
import Verif.Lemmas.C06Regexp
import Verif.Lemmas.JsonTree
import Verif.Lemmas.JsonObjTree
import Verif.Lemmas.C06Unpack
import Verif.Lemmas.C06Writers2
import Verif.Lemmas.JsonLayout
/-! # C06 — Parser stages expose exactly the fields of a line and never drop it

Theorems over `LogQL.Stage.apply` for json / logfmt / regexp / pattern / unpack (tied to the code by the C06 correspondence).  The JSON and logfmt *readers* are reached through `Env` (`jsonObject`, `jsonExpr`, `logfmt`): statements are relative to what the reader returns for the line; the executable readers `Verif/Env/Json.lean`, `Logfmt.lean`, `JsonExpr.lean` are compared with go-faster/jx and go-logfmt by the correspondence.  The pattern stage is proved at byte level with no environment. -/
namespace LogQL.C06
open LogQL

/-- **C06 (never drops)**: json, logfmt, regexp, pattern and unpack keep every line (and have no state) -/
theorem C06_parser_never_drops :
    ∀ (env : Env) (ts : Int) (s : Stage),
      isParser s = true →
        ∀ (seen : Seen) (a : LogQL.Acc),
          (Stage.apply env ts s seen a).fst.isSome = true ∧ (Stage.apply env ts s seen a).snd = seen :=
  @parser_never_drops

/-- **C06 (never changes the line)**, except unpack -/
theorem C06_parser_line_unchanged :
    ∀ (env : Env) (ts : Int) (s : Stage),
      isParser s = true →
        s ≠ Stage.unpack →
          ∀ (seen : Seen) (a a' : LogQL.Acc), (Stage.apply env ts s seen a).fst = some a' → a'.line = a.line :=
  @parser_line_unchanged

/-- unpack leaves the line or replaces it by a string `_entry` field of the packed object -/
theorem C06_unpack_line :
    ∀ (env : Env) (ts : Int) (seen : Seen) (a a' : LogQL.Acc),
      (Stage.apply env ts Stage.unpack seen a).fst = some a' →
        a'.line = a.line ∨
          ∃ (k : Bytes),
            ∃ (v : List Nat),
              ∃ (fs : List (Bytes × Json.JVal)),
                ∃ (e : Bool),
                  env.jsonObject false a.line = (fs, e) ∧
                    (k, Json.JVal.str v) ∈ fs ∧ k = Bytes.ofString "_entry" ∧ a'.line = v :=
  @unpack_line

/-- **C06 (json exposes every field)**: old labels overridden by every non-null field under its sanitised key, no error flag -/
theorem C06_json_all_fields :
    ∀ (env : Env) (ts : Int) (seen : Seen) (a : LogQL.Acc) (fs : List (Bytes × Json.JVal)),
      env.jsonObject false a.line = (fs, false) →
        (Stage.apply env ts (Stage.json [] []) seen a).fst =
          some
            { line := a.line,
              labels :=
                setAll a.labels
                  (List.filterMap
                    (fun (x : Bytes × Json.JVal) =>
                      match x with
                      | (k, v) => Option.map (fun (t : Bytes) => (KeyToLabel.run k, t)) (jvalText v))
                    fs) } :=
  @json_all_fields

/-- a field is exposed with exactly its value, overriding an existing label of the same name (later duplicates of the key win) -/
theorem C06_json_all_field_value :
    ∀ (env : Env) (ts : Int) (seen : Seen) (a a' : LogQL.Acc) (pre post : List (Bytes × Json.JVal))
      (k : Bytes) (v : Json.JVal) (t : Bytes),
      env.jsonObject false a.line = (pre ++ (k, v) :: post, false) →
        jvalText v = some t →
          (∀ (kv : Bytes × Json.JVal), kv ∈ post → jvalText kv.snd = none ∨ KeyToLabel.run kv.fst ≠ KeyToLabel.run k) →
            (Stage.apply env ts (Stage.json [] []) seen a).fst = some a' → a'.labels.get? (KeyToLabel.run k) = some t :=
  @json_all_field_value

/-- with a field list only requested fields are written: any other label keeps its value -/
theorem C06_json_some_untouched :
    ∀ (env : Env) (ts : Int) (seen : Seen) (a a' : LogQL.Acc) (labels : List Bytes),
      labels ≠ [] →
        ∀ (k : Bytes),
          ¬k ∈ labels →
            k ≠ errorLabel →
              k ≠ errorDetailsLabel →
                (Stage.apply env ts (Stage.json labels []) seen a).fst = some a' → a'.labels.get? k = a.labels.get? k :=
  @json_some_untouched

/-- **C06 (unparsable JSON)**: in all three modes the line is kept, unchanged, and flagged with `__error__` -/
theorem C06_json_unparsable_flags :
    ∀ (env : Env) (ts : Int) (seen : Seen) (a : LogQL.Acc) (labels : List Bytes)
      (exprs : List (Bytes × JsonExpr.Path)) (fs : List (Bytes × Json.JVal)),
      (exprs ≠ [] →
          (env.jsonExpr (dedupLast (exprs ++ List.map (fun (l : List Nat) => (l, [JsonExpr.Sel.key l])) labels))
                  a.line).snd =
              true →
            ∃ (a' : LogQL.Acc),
              (Stage.apply env ts (Stage.json labels exprs) seen a).fst = some a' ∧
                a'.line = a.line ∧ a'.labels.has errorLabel = true) ∧
        (exprs = [] →
            labels ≠ [] →
              env.jsonObject false a.line = (fs, true) →
                ∃ (a' : LogQL.Acc),
                  (Stage.apply env ts (Stage.json labels exprs) seen a).fst = some a' ∧
                    a'.line = a.line ∧ a'.labels.has errorLabel = true) ∧
          (exprs = [] →
            labels = [] →
              env.jsonObject false a.line = (fs, true) →
                ∃ (a' : LogQL.Acc),
                  (Stage.apply env ts (Stage.json labels exprs) seen a).fst = some a' ∧
                    a'.line = a.line ∧ a'.labels.has errorLabel = true) :=
  @json_unparsable_flags

/-- **C06 (logfmt exposes every pair)** -/
theorem C06_logfmt_all_fields :
    ∀ (env : Env) (ts : Int) (seen : Seen) (a : LogQL.Acc) (kvs : List (Bytes × Bytes)),
      env.logfmt a.line = (kvs, false) →
        (Stage.apply env ts (Stage.logfmt [] []) seen a).fst = some { line := a.line, labels := setAll a.labels kvs } :=
  @logfmt_all_fields

/-- **C06 (unparsable logfmt)**: kept, unchanged, flagged -/
theorem C06_logfmt_unparsable_flags :
    ∀ (env : Env) (ts : Int) (seen : Seen) (a : LogQL.Acc) (labels : List Bytes)
      (exprs kvs : List (Bytes × Bytes)),
      env.logfmt a.line = (kvs, true) →
        ∃ (a' : LogQL.Acc),
          (Stage.apply env ts (Stage.logfmt labels exprs) seen a).fst = some a' ∧
            a'.line = a.line ∧ a'.labels.has errorLabel = true :=
  @logfmt_unparsable_flags

/-- **C06 (unparsable packed entry)**: kept, unchanged, flagged -/
theorem C06_unpack_unparsable_flags :
    ∀ (env : Env) (ts : Int) (seen : Seen) (a : LogQL.Acc) (fs : List (Bytes × Json.JVal)),
      env.jsonObject false a.line = (fs, true) →
        ∃ (a' : LogQL.Acc),
          (Stage.apply env ts Stage.unpack seen a).fst = some a' ∧ a'.line = a.line ∧ a'.labels.has errorLabel = true :=
  @unpack_unparsable_flags

/-- the first error of a record is the one reported -/
theorem C06_setError_first_wins :
    ∀ (ls : Labels) (t1 t2 : String), setError (setError ls t1) t2 = setError ls t1 :=
  @setError_first_wins

/-- **C06 (pattern)**: whatever was written into a line according to the pattern (`Renders`: each captured value followed by the next literal, which does not occur earlier) comes back as exactly those captures, `_` skipped -/
theorem C06_pattern_roundtrip :
    ∀ (parts : List Pattern.Part) (vals : List (Bytes × Bytes)) (line : Bytes),
      Renders parts vals line → Pattern.matchP parts line = (vals, true) :=
  @pattern_roundtrip

/-- …and the stage sets exactly those labels, keeping the line -/
theorem C06_pattern_stage_roundtrip :
    ∀ (env : Env) (ts : Int) (seen : Seen) (a : LogQL.Acc) (parts : List Pattern.Part)
      (vals : List (Bytes × Bytes)),
      Renders parts vals a.line →
        (Stage.apply env ts (Stage.pattern parts) seen a).fst = some { line := a.line, labels := setAll a.labels vals } :=
  @pattern_stage_roundtrip

/-- the side condition of `Renders` in elementary form: the separator does not start inside the value -/
theorem C06_cutBefore_of_noEarly :
    ∀ (sep v rest : Bytes), NoEarly sep v rest → Pattern.cutBefore (v ++ sep ++ rest) sep = (v, true) :=
  @cutBefore_of_noEarly

/-! ## The readers themselves (hand-added): documents written canonically are read back exactly

`ExecEnv.env` is the environment the correspondence runs the model with (`logfmt := Logfmt.read`,
`jsonObject := Json.readObject`, the byte-level models of go-logfmt and go-faster/jx as the stages use
them).  The next theorems remove the "relative to what the reader returns" clause for every document of
the canonical written form: the stage exposes exactly the pairs that were written. -/

/-- **C06 (logfmt reader)**: `k1="v1" k2="v2" …` reads back as exactly those pairs, without error -/
theorem C06_logfmt_read_write :
    ∀ (kvs : List (List Nat × List Nat)),
      (∀ kv ∈ kvs, Logfmt.keyOK kv.1 = true ∧ Logfmt.valOK kv.2 = true) →
        Logfmt.read (Logfmt.write kvs) = (kvs, false) :=
  @C06Writers.logfmt_read_write

/-- **C06 (JSON reader)**: `{"k1":v1,…}` with string / int64 / bool / null members reads back as exactly those members -/
theorem C06_json_read_write :
    ∀ (checkInt : Bool) (fs : List (List Nat × Json.JVal)),
      Json.fieldsOK fs = true → Json.readObject checkInt (Json.writeObj fs) = (fs, false) :=
  @C06Writers.json_read_write

/-- **C06 (logfmt stage, end to end in the model)**: on a written line the stage sets exactly the written pairs, in order, and keeps the line -/
theorem C06_logfmt_stage_exposes_written_pairs (ts : Int) (seen : Seen) (a : LogQL.Acc)
    (kvs : List (List Nat × List Nat))
    (hk : ∀ kv ∈ kvs, Logfmt.keyOK kv.1 = true ∧ Logfmt.valOK kv.2 = true)
    (hl : a.line = Logfmt.write kvs) :
    (Stage.apply ExecEnv.env ts (Stage.logfmt [] []) seen a).fst = some { a with labels := setAll a.labels kvs } := by
  apply logfmt_all_fields
  show Logfmt.read a.line = _
  rw [hl]; exact C06Writers.logfmt_read_write kvs hk

/-- **C06 (json stage, end to end in the model)**: on a written object the stage sets every non-null member under its sanitised key -/
theorem C06_json_stage_exposes_written_fields (ts : Int) (seen : Seen) (a : LogQL.Acc)
    (fs : List (List Nat × Json.JVal)) (hf : Json.fieldsOK fs = true) (hl : a.line = Json.writeObj fs) :
    (Stage.apply ExecEnv.env ts (Stage.json [] []) seen a).fst =
      some { a with labels := setAll a.labels (fs.filterMap fun (k, v) => (jvalText v).map (fun t => (KeyToLabel.run k, t))) } := by
  apply json_all_fields
  show Json.readObject false a.line = _
  rw [hl]; exact C06Writers.json_read_write false fs hf

/-- non-vacuity: a two-pair logfmt line with an escaped value; a JSON object with all four scalar kinds -/
example : Logfmt.read (Logfmt.write [([97], [120, 32, 34, 10]), ([98, 99], [])]) = ([([97], [120, 32, 34, 10]), ([98, 99], [])], false) :=
  C06_logfmt_read_write _ (by decide)
example : Json.readObject false (Json.writeObj [([97, 34], .str [120, 10, 92]), ([98], .int (-42)), ([99], .bool true), ([], .null)])
    = ([([97, 34], .str [120, 10, 92]), ([98], .int (-42)), ([99], .bool true), ([], .null)], false) :=
  C06_json_read_write false _ (by decide)


/-! ## The `regexp` stage against the language of its expression (hand-added)

`Regex.Matches` is the textbook matching relation (Verif/Env/RegexSem.lean), `Regex.GoodCap re line (i, x, y)`
says that the body of a group numbered `i` of `re` matches exactly bytes `[x, y)` of the line
(Verif/Env/RegexCaps.lean); the executable matcher is proved sound for both (Lemmas/RegexSem, RegexCaps). -/

/-- **C06 (regexp, no match)**: a line containing no word of the language is kept as it is — no label, no flag -/
theorem C06_regexp_no_match_keeps_line (ts : Int) (seen : Seen) (a : LogQL.Acc) (re : Regex.Re) (n : Nat)
    (mapping : List (Nat × Bytes)) (h : ¬ Regex.Contains re a.line) :
    (Stage.apply ExecEnv.env ts (Stage.regexp re n mapping) seen a).fst = some a :=
  C06Regexp.regexp_no_match ts seen a re n mapping h

/-- **C06 (regexp, match)**: every label the stage sets belongs to a group of the mapping and carries the
empty text (the group took no part) or exactly the bytes of the line its group's body matched -/
theorem C06_regexp_exposes_captures (ts : Int) (seen : Seen) (a : LogQL.Acc) (re : Regex.Re) (n : Nat)
    (mapping : List (Nat × Bytes)) (h : Regex.Contains re a.line) :
    ∃ kvs, (Stage.apply ExecEnv.env ts (Stage.regexp re n mapping) seen a).fst = some { a with labels := setAll a.labels kvs } ∧
      ∀ kv ∈ kvs, ∃ i, (i, kv.1) ∈ mapping ∧ C06Regexp.Exposed re a.line i kv.2 :=
  C06Regexp.regexp_exposes_captures ts seen a re n mapping h

/-- what the matcher reports, stated on its own: group 0 is a match of the whole expression, every other span a match of its group's body -/
theorem C06_submatch_sound (r : Regex.Re) (n : Nat) (s : List Nat) (spans : List (Option (Nat × Nat)))
    (h : Regex.submatch r n s = some spans) :
    spans.length = n + 1 ∧
    (∃ a b, spans[0]? = some (some (a, b)) ∧ a ≤ b ∧ b ≤ s.length ∧ Regex.Matches r a (Regex.slice s a b) (s.drop b)) ∧
    (∀ i x y, spans[i + 1]? = some (some (x, y)) → Regex.GoodCap r s (i + 1, x, y)) :=
  RegexCaps.submatch_sound r n s spans h

/-- non-vacuity: `(a+)(b*)` on "xaab" reports groups 1 = [1,3) and 2 = [3,4) -/
example : Regex.submatch (.seq (.grp 1 (.plus (.chr 97))) (.grp 2 (.star (.chr 98)))) 2 [120, 97, 97, 98]
    = some [some (1, 4), some (1, 3), some (3, 4)] := by decide


/-! ## `json` with path expressions against the tree the line denotes (hand-added)

`JsonTree.JT` is a JSON document as a tree, `writeT` its canonical text, `denote paths cur t` what the
requested paths select in it — defined on the tree, no parsing: a scalar at a requested path with its
value (strings unescaped, numbers as written, `null` as the empty text), an array or object at a
requested path with its text, in document order (Verif/Env/JsonTree.lean).  The byte-level extractor
the correspondence runs against `jsonexpr.Extract` is proved to compute exactly that on the text of any
tree with ASCII strings (Lemmas/JsonTree.lean). -/

/-- the path extractor computes the denotation, for every tree, nesting depth and list of paths -/
theorem C06_jsonexpr_extracts_denotation (paths : List (List Nat × JsonExpr.Path)) (t : JsonTree.JT)
    (h : JsonTree.wfT t = true) :
    JsonExpr.extract paths (JsonTree.writeT t) = (JsonTree.denote paths [] t, false) :=
  JsonTreeL.extract_writeT paths t h

/-- **C06 (json with path expressions)**: on the text of a tree the stage sets exactly what the
requested paths (expressions first, then plain labels as one-key paths, a repeated label keeping its
last request) denote, in document order — only the requested fields, overriding existing labels —
keeps the line and sets no error -/
theorem C06_json_paths_expose_denotation (ts : Int) (seen : Seen) (a : LogQL.Acc) (labels : List Bytes)
    (exprs : List (Bytes × JsonExpr.Path)) (hne : exprs ≠ []) (t : JsonTree.JT) (hw : JsonTree.wfT t = true)
    (hl : a.line = JsonTree.writeT t) :
    (Stage.apply ExecEnv.env ts (Stage.json labels exprs) seen a).fst =
      some { a with labels := (setAll a.labels
        (JsonTree.denote (dedupLast (exprs ++ labels.map (fun l => (l, [JsonExpr.Sel.key l])))) [] t)) } := by
  have he : exprs.isEmpty = false := by cases exprs <;> simp_all
  have hx : ExecEnv.env.jsonExpr (dedupLast (exprs ++ labels.map (fun l => (l, [JsonExpr.Sel.key l])))) a.line
      = (JsonTree.denote (dedupLast (exprs ++ labels.map (fun l => (l, [JsonExpr.Sel.key l])))) [] t, false) := by
    rw [hl]; exact JsonTreeL.extract_writeT _ t hw
  simp only [Stage.apply, he, Bool.not_false, if_true, hx]
  rfl


/-- the object reader on the text of any object tree: its members in order, scalars as their values,
arrays and objects as their text (with the int64 check on, every integer of the tree must be in range:
the reader validates nested ones too) -/
theorem C06_json_object_reader_on_trees (checkInt : Bool) (fs : List (List Nat × JsonTree.JT))
    (h : JsonTree.wfFields fs = true) (hint : checkInt = true → JsonObjTree.intsOKFields fs = true) :
    Json.readObject checkInt (JsonTree.writeT (.obj fs)) = (fs.map (fun kv => (kv.1, JsonObjTree.toJVal kv.2)), false) :=
  JsonObjTree.readObject_writeT checkInt fs h hint

/-- **C06 (json without parameters, any object)**: every non-null member is exposed under its sanitised
key — scalars with their value, nested arrays and objects with their text — later duplicates winning -/
theorem C06_json_stage_exposes_tree_members (ts : Int) (seen : Seen) (a : LogQL.Acc)
    (fs : List (List Nat × JsonTree.JT)) (hw : JsonTree.wfFields fs = true) (hl : a.line = JsonTree.writeT (.obj fs)) :
    (Stage.apply ExecEnv.env ts (Stage.json [] []) seen a).fst =
      some { a with labels := (setAll a.labels
        ((fs.map (fun kv => (kv.1, JsonObjTree.toJVal kv.2))).filterMap
          fun (k, v) => (jvalText v).map (fun t => (KeyToLabel.run k, t)))) } := by
  apply json_all_fields
  show Json.readObject false a.line = _
  rw [hl]; exact JsonObjTree.readObject_writeT_nocheck fs hw


/-- **C06 (unpack)**: on a packed entry — an object of string members with valid label names and the
original line under `_entry`, as promtail's `pack` writes it — the stage restores exactly those labels
(overriding existing ones) and that line, and sets no error -/
theorem C06_unpack_restores_packed_entry (ts : Int) (seen : Seen) (a : LogQL.Acc) (kvs : List (Bytes × Bytes))
    (entry : Bytes)
    (hk : ∀ kv ∈ kvs, KeyToLabel.isValidLabel true kv.1 = true ∧ kv.1 ≠ C06Unpack.entryKey)
    (hok : Json.fieldsOK (C06Unpack.packed kvs entry) = true)
    (hl : a.line = Json.writeObj (C06Unpack.packed kvs entry)) :
    (Stage.apply ExecEnv.env ts Stage.unpack seen a).fst = some { line := entry, labels := setAll a.labels kvs } :=
  C06Unpack.unpack_packed ts seen a kvs entry hk hok hl


/-- **C06 (logfmt reader, the spellings programs write)**: every pair may be written quoted with escapes,
bare (`k=v`), as a key alone (`k`) or as `k=`, pairs separated by any number of blanks or tabs: the
reader returns exactly the pairs (a key alone and `k=` with the empty value), without error -/
theorem C06_logfmt_read_write_all_spellings (ps : List Logfmt.Pair) (h : ∀ p ∈ ps, p.ok = true) :
    Logfmt.read (Logfmt.write2 ps) = (ps.map (fun p => (p.key, p.val)), false) :=
  C06Writers2.logfmt_read_write2 ps h

/-- …and the stage exposes exactly those pairs -/
theorem C06_logfmt_stage_exposes_pairs_all_spellings (ts : Int) (seen : Seen) (a : LogQL.Acc)
    (ps : List Logfmt.Pair) (h : ∀ p ∈ ps, p.ok = true) (hl : a.line = Logfmt.write2 ps) :
    (Stage.apply ExecEnv.env ts (Stage.logfmt [] []) seen a).fst =
      some { a with labels := setAll a.labels (ps.map (fun p => (p.key, p.val))) } := by
  apply logfmt_all_fields
  show Logfmt.read a.line = _
  rw [hl]; exact C06Writers2.logfmt_read_write2 ps h


/-! ## Any layout (hand-added)

`JsonLayout.JW` is a JSON tree in which every place where the grammar allows white space carries its own
run of blanks, tabs, line feeds and carriage returns; `writeW` is its text (Verif/Env/JsonLayout.lean). -/

/-- **C06 (json paths, any layout)**: whatever white space the document is written with — around it, inside
empty containers, around elements, keys, colons and values — the extractor returns what the paths denote
on the tree (a container at a requested path with its text as written) -/
theorem C06_jsonexpr_layout_independent (paths : List (List Nat × JsonExpr.Path)) (t : JsonLayout.JW)
    (h : JsonLayout.wfW t = true) (pre post : JsonLayout.Ws) (hpre : JsonLayout.wsOK pre = true)
    (hpost : JsonLayout.wsOK post = true) :
    JsonExpr.extract paths (pre ++ JsonLayout.writeW t ++ post) = (JsonLayout.denoteW paths [] t, false) :=
  JsonLayoutL.extract_writeW paths t h pre post hpre hpost

/-- **C06 (json object reader, any layout)**: the members in order, scalars as their values, containers as
their text as written; leading white space and anything after the closing brace are ignored -/
theorem C06_json_object_reader_layout_independent (checkInt : Bool)
    (fs : List (JsonLayout.Ws × List Nat × JsonLayout.Ws × JsonLayout.Ws × JsonLayout.JW × JsonLayout.Ws))
    (e : JsonLayout.Ws) (h : JsonLayout.wfW (.obj e fs) = true)
    (hint : checkInt = true → JsonLayoutL.intsOKFieldsW fs = true) (pre : JsonLayout.Ws) (post : List Nat)
    (hpre : JsonLayout.wsOK pre = true) :
    Json.readObject checkInt (pre ++ JsonLayout.writeW (.obj e fs) ++ post)
      = (fs.map (fun f => (f.2.1, JsonLayoutL.toJValW f.2.2.2.2.1)), false) :=
  JsonLayoutL.readObject_writeW_gen checkInt fs e h hint pre post hpre


end LogQL.C06
