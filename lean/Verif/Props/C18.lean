import Verif.Lemmas.C10
import Verif.Lemmas.C15Generic
import Verif.Props.C04
/-! # C18 — Same query, same logs, same answer

The model of evaluation (`LogQL.specEntries`/`group`, `Metric.eval`/`readSteps`, `Render.render`) is a
*function* of the query and the records, so it is deterministic by construction; what has to be shown
is that the places where the Go runtime chooses an order do not reach that function's result.  These
are (DESIGN.md §1): the completion order of the concurrent per-container opens, the iteration order of
the map from which a sample's label set is materialised, the iteration order of the maps that hold
series/streams (the result is a *set* of series/streams: the correspondence compares canonically), and
the arrival order of streams at the renderer.  One theorem per site.

**Partial**: data-race freedom is a statement about the Go memory model; the model only shows that the
concurrent writes target distinct slots and are joined before use (`C18_completion_order_irrelevant`);
the C18 check enumerates completion orders and repeats evaluations end to end (fake Docker client →
querier → engine → renderer).  `topk`/`bottomk` at a tie is the recorded finding K2. -/
namespace C18
open LogQL Metric

/-- **C18 (scheduling of the opens)**: whatever the completion order of the concurrent per-container
requests, the merge receives the same list of iterators -/
theorem C18_completion_order_irrelevant {α} (open_ : Nat → α) (n : Nat) (o₁ o₂ : List Nat)
    (h₁ : o₁.Perm (List.range n)) (h₂ : o₂.Perm (List.range n)) :
    Merge.openAll open_ o₁ (List.replicate n none) = Merge.openAll open_ o₂ (List.replicate n none) :=
  Merge.C04_merge_input_schedule_independent open_ n o₁ o₂ h₁ h₂

/-- **C18 (map order while a label set is materialised)**: two materialisations of one label set are
permutations of each other, are identified as the same series by the model… -/
theorem C18_label_order_same_series {a b : Labels} (ha : LogQL.C08.WF a) (hb : LogQL.C08.WF b) (hp : a.Perm b) :
    sameLabels a b = true :=
  (Metric.C10.sameLabels_iff_perm ha hb).mpr hp

/-- …and get the same grouping key from the (repaired) code, for any hash -/
theorem C18_key_independent_of_map_order (h : List Nat → Nat) (a b : Labels) (hp : a.Perm b)
    (hn : (a.map Prod.fst).Nodup) :
    h (Metric.C10.encode (Metric.C10.sortByName a)) = h (Metric.C10.encode (Metric.C10.sortByName b)) :=
  Metric.C10.key_perm_invariant h a b hp hn

/-- **C18 (rendered output)**: with colour off and distinct timestamps the rendered bytes do not depend
on the order in which streams (a Go map's values) reach the renderer -/
theorem C18_render_independent_of_stream_order (index : Nat → Nat → Nat) (len : Nat) (o : Render.Opts)
    (hc : o.color = false) (ss ss' : List Render.Stream) (hp : (Render.flatten ss).Perm (Render.flatten ss'))
    (hd : ((Render.flatten ss).map (·.t)).Nodup) :
    Render.render index len o ss = Render.render index len o ss' :=
  Render.C15.render_perm_invariant index len o hc ss ss' hp hd

/-- the streams of a log result are pairwise different label sets, so a result is determined as a set
of (label set, entries) pairs whatever order the runtime enumerates them in -/
theorem C18_streams_are_a_set (es : List Entry) :
    (group es).Pairwise (fun s t => sameLabels s.labels t.labels = false) :=
  LogQL.C08.streams_distinct es

/-- likewise the series of a metric result -/
theorem C18_series_are_a_set (steps : List Step) :
    (readSteps false steps).Pairwise (fun a b => sameLabels a.labels b.labels = false) :=
  Metric.C10.readSteps_no_duplicate_series steps

end C18
