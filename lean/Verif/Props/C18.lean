import Verif.Lemmas.C10
import Verif.Lemmas.C15Generic
import Verif.Props.C04
import Verif.Lemmas.C18Race
import Verif.Gen.GoWrites
/-! # C18 — Same query, same logs, same answer

The model of evaluation (`LogQL.specEntries`/`group`, `Metric.eval`/`readSteps`, `Render.render`) is a
*function* of the query and the records, so it is deterministic by construction; what has to be shown
is that the places where the Go runtime chooses an order do not reach that function's result.  These
are (DESIGN.md §1): the completion order of the concurrent per-container opens, the iteration order of
the map from which a sample's label set is materialised, the iteration order of the maps that hold
series/streams (the result is a *set* of series/streams: the correspondence compares canonically), and
the arrival order of streams at the renderer.  One theorem per site.

**Partial**: data-race freedom is a statement about the Go memory model.  What is proved: the
discipline "a concurrently running body assigns, of everything declared outside it, only the array
element indexed by its own per-iteration loop variable" is READ OFF THE SOURCE on every run
(`Gen.goWrites`, go/ast over internal/dockerlog) and checked by `C18_goroutine_writes_own_slot`; under
that discipline no two accesses of different bodies conflict (`C18_no_conflicting_accesses`) and the
array handed to the merge does not depend on the interleaving (`C18_slot_writes_commute`,
`C18_completion_order_irrelevant`).  What is not: that the extractor sees every write (calls through
`q.client`, the iterators' internals) and the happens-before edges of `errgroup.Wait`; the C18 check
therefore also runs the section under Go's race detector (harness `race`), enumerates completion
orders and repeats evaluations end to end (fake Docker client → querier → engine → renderer). -/
namespace C18
open LogQL Metric

/-- **C18 (scheduling of the opens)**: whatever the completion order of the concurrent per-container
requests, the merge receives the same list of iterators -/
theorem C18_completion_order_irrelevant {α} (open_ : Nat → α) (n : Nat) (o₁ o₂ : List Nat)
    (h₁ : o₁.Perm (List.range n)) (h₂ : o₂.Perm (List.range n)) :
    Merge.openAll open_ o₁ (List.replicate n none) = Merge.openAll open_ o₂ (List.replicate n none) :=
  Merge.C04_merge_input_schedule_independent open_ n o₁ o₂ h₁ h₂

/-- **C18 (map order while a label set is materialised)**: two materialisations of one label set are
permutations of each other, are identified as the same series by the model… -/
theorem C18_label_order_same_series {a b : Labels} (ha : LogQL.C08.WF a) (hb : LogQL.C08.WF b) (hp : a.Perm b) :
    sameLabels a b = true :=
  (Metric.C10.sameLabels_iff_perm ha hb).mpr hp

/-- …and get the same grouping key from the (repaired) code, for any hash -/
theorem C18_key_independent_of_map_order (h : List Nat → Nat) (a b : Labels) (hp : a.Perm b)
    (hn : (a.map Prod.fst).Nodup) :
    h (Metric.C10.encode (Metric.C10.sortByName a)) = h (Metric.C10.encode (Metric.C10.sortByName b)) :=
  Metric.C10.key_perm_invariant h a b hp hn

/-- **C18 (rendered output)**: with colour off and distinct timestamps the rendered bytes do not depend
on the order in which streams (a Go map's values) reach the renderer -/
theorem C18_render_independent_of_stream_order (index : Nat → Nat → Nat) (len : Nat) (o : Render.Opts)
    (hc : o.color = false) (ss ss' : List Render.Stream) (hp : (Render.flatten ss).Perm (Render.flatten ss'))
    (hd : ((Render.flatten ss).map (·.t)).Nodup) :
    Render.render index len o ss = Render.render index len o ss' :=
  Render.C15.render_perm_invariant index len o hc ss ss' hp hd

/-- the streams of a log result are pairwise different label sets, so a result is determined as a set
of (label set, entries) pairs whatever order the runtime enumerates them in -/
theorem C18_streams_are_a_set (es : List Entry) :
    (group es).Pairwise (fun s t => sameLabels s.labels t.labels = false) :=
  LogQL.C08.streams_distinct es

/-- likewise the series of a metric result -/
theorem C18_series_are_a_set (steps : List Step) :
    (readSteps false steps).Pairwise (fun a b => sameLabels a.labels b.labels = false) :=
  Metric.C10.readSteps_no_duplicate_series steps

/-- **C18 (race clause, regenerated fact)**: in the source as it is now there is exactly one concurrently
running body in internal/dockerlog, loop variables are per iteration, and every assignment in that body to
something declared outside it is to the element indexed by its own loop variable -/
theorem C18_goroutine_writes_own_slot :
    Gen.goBodies = 1 ∧ Gen.loopVarPerIteration = true ∧ ∀ w ∈ Gen.goWrites, w.2.2 = Gen.WKind.slot := by
  decide

/-- **C18 (race clause, model)**: under that discipline no two accesses of different bodies conflict -/
theorem C18_no_conflicting_accesses (accs : List C18Race.Access) (h : ∀ a ∈ accs, C18Race.Disciplined a) :
    ∀ a ∈ accs, ∀ b ∈ accs, ¬ C18Race.conflict a b := C18Race.no_conflict accs h

/-- …and the filled array is the same for every order in which the bodies' writes are performed -/
theorem C18_slot_writes_commute {α} (ws1 ws2 : List (Nat × α)) (hp : ws1.Perm ws2)
    (hd : ws1.Pairwise (fun a b => a.1 ≠ b.1)) (arr : Nat → Option α) :
    ws1.foldl C18Race.store arr = ws2.foldl C18Race.store arr := C18Race.foldl_store_perm ws1 ws2 hp hd arr


end C18
