import Verif.Lemmas.Frames
import Verif.Lemmas.FramesChunks
import Verif.Lemmas.Calendar
/-! # C03 — Docker log streams are decoded without loss or alteration

Theorems over `Frames.decodeAll` (model of `dockerlog.ParseLog`, tied to the Go code by the C03
correspondence).  The timestamp codec is abstract: `Codec fmtTs parseTs` says the parser inverts the
daemon's printer and a timestamp contains no space; the executable instance `Rfc3339.parse` is
compared with `time.Parse(RFC3339Nano)` on daemon-formatted timestamps by the correspondence. -/
namespace Frames

variable {fmtTs : Int → List Nat} {parseTs : List Nat → Option Int}

/-- enough fuel: `decodeAll` on `encodeAll rs ++ tail` behaves like `decode` with explicit fuel -/
theorem decodeAll_prefix (hc : Codec fmtTs parseTs) (rs : List Rec) (hr : ∀ r ∈ rs, WF fmtTs r)
    (tail : List Nat) :
    decodeAll parseTs (encodeAll fmtTs rs ++ tail) =
      (rs ++ (decodeAll parseTs tail).1, (decodeAll parseTs tail).2) := by
  unfold decodeAll
  have hlen := encodeAll_length_ge (fmtTs := fmtTs) rs
  have e : (encodeAll fmtTs rs ++ tail).length + 1 = rs.length + ((tail.length + 1) +
      ((encodeAll fmtTs rs).length - rs.length)) := by
    simp only [List.length_append]; omega
  rw [e, decode_prefix hc rs hr, decode_fuel_mono (tail.length + 1) tail (by omega)]

/-- **C03 (lossless)**: any record sequence (any body bytes, any stream type other than the
daemon-error type) comes back exactly, in order, followed by a clean end. -/
theorem C03_decode_encode (hc : Codec fmtTs parseTs) (rs : List Rec) (hr : ∀ r ∈ rs, WF fmtTs r) :
    decodeAll parseTs (encodeAll fmtTs rs) = (rs, .clean) := by
  have := decodeAll_prefix hc rs hr []
  simpa [decodeAll, decode, step] using this

/-- a truncated frame on its own: clean end iff the cut is inside the 8-byte header -/
theorem decodeAll_cut (r : Rec) (hw : WF fmtTs r) (k : Nat) (hk : k < (encode fmtTs r).length) :
    decodeAll parseTs ((encode fmtTs r).take k) = ([], if k < 8 then .clean else .errBody) := by
  have hlen : ((encode fmtTs r).take k).length = k := by
    simp [List.length_take]; omega
  have hstep : step parseTs ((encode fmtTs r).take k) = .stop (if k < 8 then .clean else .errBody) := by
    unfold step
    by_cases h8 : k < 8
    · simp [hlen, h8]
    · have h8' : ¬ ((encode fmtTs r).take k).length < 8 := by rw [hlen]; exact h8
      simp only [h8', ↓reduceIte, h8]
      have hsz : readBe32 ((((encode fmtTs r).take k).drop 4).take 4) = (payload fmtTs r).length := by
        have e1 : (((encode fmtTs r).take k).drop 4).take 4 = ((encode fmtTs r).drop 4).take 4 := by
          rw [List.drop_take, List.take_take]
          congr 1; omega
        rw [e1]
        have := readBe32_be32 _ hw.2
        simpa [encode, be32] using this
      have hrest : (((encode fmtTs r).take k).drop 8).length < (payload fmtTs r).length := by
        rw [List.length_drop, hlen]
        have := encode_length (fmtTs := fmtTs) r
        omega
      simp only [hsz, hrest, ↓reduceIte]
  unfold decodeAll
  rw [decode, hstep]

/-- **C03 (truncation)**: a stream cut inside frame `r` after `k` of its bytes yields all earlier
records, then ends cleanly if the cut is inside the frame header and with an error if it is inside
the frame body — never a silent drop of a partial record. -/
theorem C03_decode_truncated (hc : Codec fmtTs parseTs) (rs : List Rec) (hr : ∀ r ∈ rs, WF fmtTs r)
    (r : Rec) (hw : WF fmtTs r) (k : Nat) (hk : k < (encode fmtTs r).length) :
    decodeAll parseTs (encodeAll fmtTs rs ++ (encode fmtTs r).take k) =
      (rs, if k < 8 then .clean else .errBody) := by
  rw [decodeAll_prefix hc rs hr, decodeAll_cut r hw k hk]
  simp

/-- **C03 (daemon error frame)**: a frame of the daemon-error stream type at any position is
reported as an error after the records before it; nothing after it is returned. -/
theorem C03_decode_daemon_frame (hc : Codec fmtTs parseTs) (rs : List Rec) (hr : ∀ r ∈ rs, WF fmtTs r)
    (msg tail : List Nat) (hlen : msg.length < 4294967296) :
    decodeAll parseTs (encodeAll fmtTs rs ++ (rawFrame 3 msg ++ tail)) = (rs, .errDaemon) := by
  rw [decodeAll_prefix hc rs hr]
  have : decodeAll parseTs (rawFrame 3 msg ++ tail) = ([], .errDaemon) := by
    unfold decodeAll
    rw [decode, step_raw _ _ _ hlen]
    simp
  rw [this]; simp

/-- **C03 (unparsable timestamp)**: a frame whose timestamp text is rejected by the parser is
reported as an error after the records before it. -/
theorem C03_decode_bad_timestamp (hc : Codec fmtTs parseTs) (rs : List Rec) (hr : ∀ r ∈ rs, WF fmtTs r)
    (typ : Nat) (ht : typ ≠ 3) (t body tail : List Nat) (hsp : ∀ b ∈ t, b ≠ 32) (hbad : parseTs t = none)
    (hlen : (t ++ 32 :: body).length < 4294967296) :
    decodeAll parseTs (encodeAll fmtTs rs ++ (rawFrame typ (t ++ 32 :: body) ++ tail)) = (rs, .errTs) := by
  rw [decodeAll_prefix hc rs hr]
  have : decodeAll parseTs (rawFrame typ (t ++ 32 :: body) ++ tail) = ([], .errTs) := by
    unfold decodeAll
    rw [decode, step_raw _ _ _ hlen]
    simp [ht, cutSpace_append t body hsp, hbad]
  rw [this]; simp

/-- **C03 (no separator)**: a frame without a space between timestamp and message is an error. -/
theorem C03_decode_no_space (hc : Codec fmtTs parseTs) (rs : List Rec) (hr : ∀ r ∈ rs, WF fmtTs r)
    (typ : Nat) (ht : typ ≠ 3) (p tail : List Nat) (hsp : ∀ b ∈ p, b ≠ 32) (hlen : p.length < 4294967296) :
    decodeAll parseTs (encodeAll fmtTs rs ++ (rawFrame typ p ++ tail)) = (rs, .errNoSpace) := by
  rw [decodeAll_prefix hc rs hr]
  have : decodeAll parseTs (rawFrame typ p ++ tail) = ([], .errNoSpace) := by
    unfold decodeAll
    rw [decode, step_raw _ _ _ hlen]
    simp [ht, cutSpace_none p hsp]
  rw [this]; simp

/-- **C03 (fragmentation)**: delivering the byte stream in arbitrarily fragmented reads (including
empty reads) decodes to the same result as the whole stream (for the modelled `io.ReadFull` /
`io.CopyN` contract `readN`). -/
theorem C03_decode_chunks (parseTs : List Nat → Option Int) (cs : List (List Nat)) :
    decodeChunks parseTs (cs.flatten.length + 1) cs = decodeAll parseTs cs.flatten :=
  decodeChunks_eq_decode parseTs _ cs

/-! Non-vacuity: a codec exists (unary, sign-prefixed), and a well-formed record for it. -/
def exFmt (t : Int) : List Nat := (if t < 0 then [45] else [43]) ++ List.replicate t.natAbs 49
def exParse : List Nat → Option Int
  | 45 :: ds => some (-(ds.length : Int))
  | 43 :: ds => some (ds.length : Int)
  | _ => none

theorem exCodec : Codec exFmt exParse := by
  constructor
  · intro t
    unfold exFmt exParse
    by_cases h : t < 0
    · simp [h]; omega
    · simp [h]; omega
  · intro t b hb
    unfold exFmt at hb
    rcases List.mem_append.mp hb with h | h
    · split at h <;> simp at h <;> omega
    · have := List.eq_of_mem_replicate h; omega

example : WF exFmt ⟨3, 1, [104, 32, 10, 255]⟩ := by
  constructor
  · decide
  · simp [payload, exFmt]

example : decodeAll exParse (encodeAll exFmt [⟨3, 1, [104, 32, 10, 255]⟩, ⟨-2, 2, []⟩]) =
    ([⟨3, 1, [104, 32, 10, 255]⟩, ⟨-2, 2, []⟩], .clean) :=
  C03_decode_encode exCodec _ (by
    intro r hr
    simp only [List.mem_cons, List.not_mem_nil, or_false] at hr
    rcases hr with rfl | rfl
    · exact ⟨by decide, by simp [payload, exFmt]⟩
    · exact ⟨by decide, by simp [payload, exFmt]⟩)

/-! ## the real timestamp codec (RFC 3339 with nanoseconds, years 1970–9999) -/

/-- the civil date of every day from 1970-01-01 to 9999-12-31 is a valid date and converts back
(Hinnant's algorithms, proved by linear arithmetic — no enumeration) -/
theorem C03_civil_of_days (z : Nat) (hz : z ≤ 2932896) :
    let ymd := Time.civilFromDays (z : Int)
    1970 ≤ ymd.1 ∧ ymd.1 ≤ 9999 ∧ 1 ≤ ymd.2.1 ∧ ymd.2.1 ≤ 12 ∧ 1 ≤ ymd.2.2 ∧ ymd.2.2 ≤ Time.daysIn ymd.2.1 ymd.1 ∧
    Time.daysFromCivil ymd.1 ymd.2.1 ymd.2.2 = (z : Int) :=
  Calendar.civil_of_days z hz

/-- **C03 (nanosecond-exact timestamps)**: parsing the RFC3339Nano text of any instant of the years
1970–9999 gives that instant back, to the nanosecond. -/
theorem C03_rfc3339_roundtrip (t : Nat) (ht : t < 253402300800000000000) :
    Rfc3339.parse (Render.rfc3339Nano t) = some (t : Int) :=
  Calendar.rfc3339_roundtrip t ht

/-- **C03 (lossless decoding, concrete codec)**: any sequence of records with timestamps in 1970–9999,
framed as the Docker daemon frames them with RFC3339Nano timestamps, decodes to exactly those records, in
order, ending cleanly — no abstract codec hypothesis left. -/
theorem C03_decode_encode_rfc3339 (rs : List Rec)
    (hr : ∀ r ∈ rs, WF (fun t => Render.rfc3339Nano t.toNat) r ∧ 0 ≤ r.ts ∧ r.ts < 253402300800000000000) :
    decodeAll Rfc3339.parse (encodeAll (fun t => Render.rfc3339Nano t.toNat) rs) = (rs, .clean) :=
  Calendar.decode_encode_rfc3339 rs hr

-- the bound is tight: the first instant of year 10000 has a five-digit year, which the parser rejects
example : Rfc3339.parse (Render.rfc3339Nano 253402300800000000000) = none := by decide +kernel
example : Rfc3339.parse (Render.rfc3339Nano 1700000000123456000) = some 1700000000123456000 :=
  C03_rfc3339_roundtrip _ (by decide)

end Frames
