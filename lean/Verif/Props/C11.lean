import Verif.Lemmas.C11
/-! # C11 — Vector aggregations aggregate exactly their group

Theorems over `Metric.vecStep` / `AggLabels.by` / `wo` / `vecAggregate` / `sortSamples` (models of `vectorAggIterator`, `vectorAggHeapIterator`, `aggregatedLabels.By/Without`, the streaming aggregators; tied to the code by the C11 correspondence).  topk/bottomk with tied boundary values are the recorded finding K2 (which of the tied series is kept depends on map order); the theorems describe the model's deterministic choice (stable order). -/
namespace Metric.C11
open LogQL Metric

/-- **C11 (groups and values)**: one output series per distinct combination of retained labels, whose value is the aggregate of exactly the input series of that group -/
theorem C11_agg_spec :
    ∀ (op : VecOp),
      isAggOp op = true →
        ∀ (param : Option Int) (g : Option Grouping) (s : Step),
          vecStep op param g s =
            { t := s.t,
              samples :=
                List.map
                  (fun (grp : AggLabels × List Sample) =>
                    { set := grp.fst, v := vecAggregate op (List.map (fun (x : Sample) => x.v) grp.snd) })
                  (groupBySet (fun (x : Sample) => applyGrouping g (fun (a : AggLabels) => a.by []) x.set) s.samples) } :=
  @agg_spec

/-- **C11 (no grouping clause)**: all input series form one group with an empty label set -/
theorem C11_ungrouped_one_group :
    ∀ (op : VecOp),
      isAggOp op = true →
        ∀ (param : Option Int) (s : Step),
          s.samples ≠ [] →
            ∃ (x : Sample),
              (vecStep op param none s).samples = [x] ∧
                x.set.visible = [] ∧ x.v = vecAggregate op (List.map (fun (x : Sample) => x.v) s.samples) :=
  @ungrouped_one_group

/-- **C11 (by)**: a label is retained iff it was visible and is listed -/
theorem C11_by_visible_iff :
    ∀ (a : AggLabels) (L : List Bytes) (kv : Bytes × Bytes),
      kv ∈ (a.by L).visible ↔ kv ∈ a.visible ∧ kv.fst ∈ L :=
  @by_visible_iff

/-- **C11 (without)**: a label is retained iff it was visible and is not listed -/
theorem C11_without_visible_iff :
    ∀ (a : AggLabels) (L : List Bytes) (kv : Bytes × Bytes),
      kv ∈ (a.wo L).visible ↔ kv ∈ a.visible ∧ ¬kv.fst ∈ L :=
  @without_visible_iff

/-- labels removed by an inner aggregation cannot reappear -/
theorem C11_by_visible :
    ∀ (a : AggLabels) (L : List Bytes) (kv : Bytes × Bytes),
      kv ∈ (a.by L).visible → kv ∈ a.visible ∧ kv.fst ∈ L :=
  @by_visible

/-- by (a non-existent label) retains nothing -/
theorem C11_by_nonexistent_label :
    ∀ (a : AggLabels) (L : List Bytes),
      (∀ (l : Bytes), l ∈ L → ∀ (kv : Bytes × Bytes), kv ∈ a.visible → kv.fst ≠ l) → (a.by L).visible = [] :=
  @by_nonexistent_label

/-- **C11 (nesting)**: nested by-clauses retain the labels in both lists -/
theorem C11_by_by :
    ∀ (a : AggLabels) (L1 L2 : List Bytes) (kv : Bytes × Bytes),
      kv ∈ ((a.by L1).by L2).visible ↔ kv ∈ a.visible ∧ kv.fst ∈ L1 ∧ kv.fst ∈ L2 :=
  @by_by

/-- sum is the fold of + -/
theorem C11_vecAggregate_sum :
    ∀ (vs : List Val), vecAggregate VecOp.sum vs = List.foldl Val.add (Val.q 0) vs :=
  @vecAggregate_sum

/-- count is the group size -/
theorem C11_vecAggregate_count :
    ∀ (vs : List Val), vecAggregate VecOp.count vs = Val.q (↑vs.length : Rat) :=
  @vecAggregate_count

/-- the running mean is the arithmetic mean -/
theorem C11_avgVal_rats :
    ∀ (rs : List Rat),
      rs ≠ [] → avgVal (List.map Val.q rs) = Val.q (List.foldl (fun (x1 x2 : Rat) => x1 + x2) 0 rs / (↑rs.length : Rat)) :=
  @avgVal_rats

/-- Welford's update is the population variance -/
theorem C11_stdvarVal_rats :
    ∀ (rs : List Rat),
      rs ≠ [] →
        stdvarVal (List.map Val.q rs) =
          Val.q
            ((List.map (fun (x : Rat) => (x - rs.sum / (↑rs.length : Rat)) * (x - rs.sum / (↑rs.length : Rat))) rs).sum /
              (↑rs.length : Rat)) :=
  @stdvarVal_rats

/-- sorting keeps every series (labels intact) -/
theorem C11_sortSamples_perm :
    ∀ (less : Val → Val → Bool) (xs : List Sample), (sortSamples less xs).Perm xs :=
  @sortSamples_perm

/-- …in ascending value order -/
theorem C11_sortSamples_asc_sorted :
    ∀ (xs : List Sample),
      List.Pairwise (fun (a b : Sample) => b.v.lt a.v = false) (sortSamples Val.lt xs) :=
  @sortSamples_asc_sorted

/-- **C11 (topk)**: per group the k largest series, descending -/
theorem C11_topk_spec :
    ∀ (k : Nat),
      0 < k →
        ∀ (g : Option Grouping) (s : Step),
          (vecStep VecOp.topk (some (↑k : Int)) g s).samples =
            List.flatMap
              (fun (grp : AggLabels × List Sample) => List.take k (sortSamples (fun (a b : Val) => b.lt a) grp.snd))
              (groupBySet (fun (x : Sample) => applyGrouping g (fun (a : AggLabels) => a.by []) x.set) s.samples) :=
  @topk_spec

/-- **C11 (bottomk)** -/
theorem C11_bottomk_spec :
    ∀ (k : Nat),
      0 < k →
        ∀ (g : Option Grouping) (s : Step),
          (vecStep VecOp.bottomk (some (↑k : Int)) g s).samples =
            List.flatMap (fun (grp : AggLabels × List Sample) => List.take k (sortSamples Val.lt grp.snd))
              (groupBySet (fun (x : Sample) => applyGrouping g (fun (a : AggLabels) => a.by []) x.set) s.samples) :=
  @bottomk_spec

/-- topk returns input series unchanged -/
theorem C11_topk_subset :
    ∀ (k : Nat),
      0 < k →
        ∀ (g : Option Grouping) (s : Step) (x : Sample),
          x ∈ (vecStep VecOp.topk (some (↑k : Int)) g s).samples → x ∈ s.samples :=
  @topk_subset

/-- **C11 (sort)**: all series ordered by value -/
theorem C11_sort_spec :
    ∀ (g : Option Grouping) (s : Step),
      (vecStep VecOp.sort none g s).samples =
        List.flatMap (fun (grp : AggLabels × List Sample) => sortSamples Val.lt grp.snd)
          (groupBySet (fun (x : Sample) => applyGrouping g (fun (a : AggLabels) => a.by []) x.set) s.samples) :=
  @sort_spec

/-- **C11 (sort_desc)** -/
theorem C11_sortDesc_spec :
    ∀ (g : Option Grouping) (s : Step),
      (vecStep VecOp.sortDesc none g s).samples =
        List.flatMap (fun (grp : AggLabels × List Sample) => sortSamples (fun (a b : Val) => b.lt a) grp.snd)
          (groupBySet (fun (x : Sample) => applyGrouping g (fun (a : AggLabels) => a.by []) x.set) s.samples) :=
  @sortDesc_spec


end Metric.C11
