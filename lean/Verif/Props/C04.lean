import Verif.Lemmas.Merge
import Verif.Lemmas.HeapMerge
/-! # C04 — Multi-container merge conserves records and time order

`Run srcs out` is the specification of `dockerlog.mergeIter`: every output record is a head with
minimal timestamp among the current heads (any tie-break, hence any `container/heap` behaviour).
The correspondence check feeds the implementation's actual output to the executable checker
`isRun` (sound by `C04_isRun_sound`), so every theorem below applies to every output the
implementation produced in the check. -/
namespace Merge

/-- the checker only accepts runs: whatever `isRun` accepted satisfies all statements below -/
theorem C04_isRun_sound (srcs : List (List Rec)) (out : List Rec) (h : isRun srcs out = true) :
    Run srcs out := isRun_sound srcs out h

/-- **C04 (conservation)**: the merged stream contains every record of every source exactly once
(it is a permutation of the concatenated sources), including empty sources and ties. -/
theorem C04_run_perm {srcs out} (h : Run srcs out) : out.Perm srcs.flatten := run_perm h

/-- **C04 (time order)**: if every container's own log is time-ordered, the merged stream is in
non-decreasing timestamp order. -/
theorem C04_run_sorted {srcs out} (h : Run srcs out) (hs : ∀ s ∈ srcs, SortedTs s) : SortedTs out :=
  run_sorted h hs

/-- **C04 (per-container order)**: the records of each container appear in their own order, for
sorted and unsorted sources alike. -/
theorem C04_run_source_order {srcs out} (h : Run srcs out) (ht : Tagged srcs) (i : Nat) (hi : i < srcs.length) :
    out.filter (fun x => x.src == i) = srcs[i] := run_source_order h ht i hi

/-- **C04 (schedule independence)**: the slots filled by the concurrent per-container requests do
not depend on the order in which the requests complete (each request writes only its own slot). -/
theorem C04_open_order_irrelevant {α} (open_ : Nat → α) (o₁ o₂ : List Nat) (init : List (Option α))
    (hp : o₁.Perm o₂) : openAll open_ o₁ init = openAll open_ o₂ init := openAll_perm open_ o₁ o₂ init hp

/-- after all `n` requests completed, in any order, slot `i` holds the iterator of container `i` -/
theorem C04_open_complete {α} (open_ : Nat → α) (n : Nat) (order : List Nat) (hp : order.Perm (List.range n)) :
    openAll open_ order (List.replicate n none) = (List.range n).map (fun i => some (open_ i)) :=
  openAll_complete open_ n order hp

/-- consequence used by C18: the merged output being a function of the slot list, two completion
orders give the same merge input -/
theorem C04_merge_input_schedule_independent {α} (open_ : Nat → α) (n : Nat) (o₁ o₂ : List Nat)
    (h₁ : o₁.Perm (List.range n)) (h₂ : o₂.Perm (List.range n)) :
    openAll open_ o₁ (List.replicate n none) = openAll open_ o₂ (List.replicate n none) := by
  rw [openAll_complete open_ n o₁ h₁, openAll_complete open_ n o₂ h₂]

-- non-vacuity: a run with a cross-source tie and an empty source, accepted by the checker
example : isRun [[⟨1,0,0⟩, ⟨3,0,1⟩], [], [⟨1,2,0⟩]] [⟨1,2,0⟩, ⟨1,0,0⟩, ⟨3,0,1⟩] = true := by decide
example : Run [[⟨1,0,0⟩, ⟨3,0,1⟩], [], [⟨1,2,0⟩]] [⟨1,2,0⟩, ⟨1,0,0⟩, ⟨3,0,1⟩] :=
  isRun_sound _ _ (by decide)
example : Tagged [[⟨1,0,0⟩, ⟨3,0,1⟩], [], [⟨1,2,0⟩]] := by
  intro i hi x hx
  match i, hi with
  | 0, _ => simp at hx; rcases hx with rfl | rfl <;> rfl
  | 1, _ => simp at hx
  | 2, _ => simp at hx; subst hx; rfl

/-! ## the algorithm that exists: binary heap over `container/heap`

`HeapMerge.merge` is the operational model of `mergeIter` (sift loops of `container/heap`, ties included); the
C04 correspondence compares it with the implementation's output order record for record. -/

/-- **C04 (the heap-based merge meets the specification)**: at every step it emits a head of minimal
timestamp and it ends when every source is exhausted — for any number of sources, any lengths, any ties,
sorted or not. -/
theorem C04_heap_merge_is_run (srcs : List (List Rec)) : Run srcs (HeapMerge.merge srcs) :=
  HeapMerge.merge_is_run srcs

/-- **C04 (conservation)** for the algorithm: every record of every container exactly once -/
theorem C04_heap_merge_perm (srcs : List (List Rec)) : (HeapMerge.merge srcs).Perm srcs.flatten :=
  HeapMerge.merge_perm srcs

/-- **C04 (time order)** for the algorithm: time-sorted container logs merge into a time-sorted stream -/
theorem C04_heap_merge_sorted (srcs : List (List Rec)) (hs : ∀ s ∈ srcs, SortedTs s) :
    SortedTs (HeapMerge.merge srcs) :=
  HeapMerge.merge_sorted srcs hs

example : HeapMerge.merge [[⟨1,0,0⟩, ⟨5,0,1⟩], [⟨10,1,0⟩], [⟨3,2,0⟩]] = [⟨1,0,0⟩, ⟨3,2,0⟩, ⟨5,0,1⟩, ⟨10,1,0⟩] := by
  decide +kernel

end Merge
