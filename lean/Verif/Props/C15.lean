import Verif.Lemmas.C15
import Verif.Lemmas.Calendar
/-! # C15 — Rendering prints every entry once, in time order, for any input

Theorems over `Render.render` (model of `renderResult`, tied to the `verif`-tagged build of cmd/docker-logql by the C15 correspondence, byte for byte) with the palette index expression and palette length REGENERATED from query.go / color.go by a go/ast translation (`Gen.paletteIndex`, `Gen.paletteLen`). -/
namespace Render.C15
open Render

/-- **C15 (any number of containers)**, regenerated fact: the palette index is inside the palette for every number of containers (unbounded; fails to compile on `n % len + 1`, defect D11) -/
theorem C15_palette_in_range :
    ∀ (n : Nat), Gen.paletteIndex n Gen.paletteLen < Gen.paletteLen :=
  @palette_in_range

/-- **C15 (rendering succeeds)** for any result and all eight option combinations -/
theorem C15_render_never_panics :
    ∀ (o : Opts) (ss : List Render.Stream),
      (render Gen.paletteIndex Gen.paletteLen o ss).isSome = true :=
  @render_never_panics

/-- **C15 (one output record per entry)**, each terminated by a line feed -/
theorem C15_one_record_per_entry :
    ∀ (o : Opts) (ss : List Render.Stream) (out : List Nat),
      render Gen.paletteIndex Gen.paletteLen o ss = some out →
        ∃ (recs : List (List Nat)),
          out = recs.flatten ∧ recs.length = (flatten ss).length ∧ ∀ (r : List Nat), r ∈ recs → r.getLast? = some 10 :=
  @one_record_per_entry

/-- the output is exactly the records of the entries in `sortByT` order -/
theorem C15_records_are_sorted_lines :
    ∀ (o : Opts) (ss : List Render.Stream) (out : List Nat),
      render Gen.paletteIndex Gen.paletteLen o ss = some out →
        ∃ (colors : List (List Nat × List Nat)), out = (List.map (lineOf o colors) (sortByT (flatten ss))).flatten :=
  @records_are_sorted_lines

/-- sorting keeps every entry exactly once -/
theorem C15_sortByT_perm :
    ∀ (es : List Entry), (sortByT es).Perm es :=
  @sortByT_perm

/-- **C15 (time order across all containers)** -/
theorem C15_sortByT_sorted :
    ∀ (es : List Entry), List.Pairwise (fun (a b : Entry) => a.t ≤ b.t) (sortByT es) :=
  @sortByT_sorted

/-- with distinct timestamps the order is independent of the order in which streams and entries arrive -/
theorem C15_sortByT_perm_invariant :
    ∀ (es es' : List Entry),
      es.Perm es' → (List.map (fun (x : Entry) => x.t) es).Nodup → sortByT es = sortByT es' :=
  @sortByT_perm_invariant

/-- hence, with colour off and distinct timestamps, the rendered bytes do not depend on stream order (used by C18) -/
theorem C15_render_perm_invariant :
    ∀ (index : Nat → Nat → Nat) (len : Nat) (o : Opts),
      o.color = false →
        ∀ (ss ss' : List Render.Stream),
          (flatten ss).Perm (flatten ss') →
            (List.map (fun (x : Entry) => x.t) (flatten ss)).Nodup → render index len o ss = render index len o ss' :=
  @render_perm_invariant

/-- **C15 (colour off adds no escape sequence)** -/
theorem C15_no_escape_when_colour_off :
    ∀ (index : Nat → Nat → Nat) (len : Nat) (o : Opts),
      o.color = false →
        ∀ (ss : List Render.Stream) (out : List Nat),
          render index len o ss = some out → (∀ (e : Entry), e ∈ flatten ss → ¬27 ∈ e.v ∧ ¬27 ∈ e.container) → ¬27 ∈ out :=
  @no_escape_when_colour_off

/-- **C15 (colour on)**: every rendered container has a colour… -/
theorem C15_colour_assigned :
    ∀ (ss : List Render.Stream) (colors : List (List Nat × List Nat)),
      colorTable Gen.paletteIndex Gen.paletteLen (containersOf (flatten ss)) = some colors →
        ∀ (e : Entry), e ∈ flatten ss → ∃ (code : List Nat), List.lookup e.container colors = some code :=
  @colour_assigned

/-- …which is one palette colour (never grey's slot 0, always inside the table) -/
theorem C15_colour_from_palette :
    ∀ (ss : List Render.Stream) (colors : List (List Nat × List Nat)),
      colorTable Gen.paletteIndex Gen.paletteLen (containersOf (flatten ss)) = some colors →
        ∀ (p : List Nat × List Nat), p ∈ colors → ∃ (k : Nat), 1 ≤ k ∧ k < Gen.paletteLen ∧ p.snd = paletteColor k :=
  @colour_from_palette

/-- …used consistently: it is a function of the container name -/
theorem C15_colour_consistent :
    ∀ (o : Opts) (ss : List Render.Stream) (colors : List (List Nat × List Nat)),
      colorTable Gen.paletteIndex Gen.paletteLen (containersOf (flatten ss)) = some colors →
        ∀ (e1 e2 : Entry), e1.container = e2.container → List.lookup e1.container colors = List.lookup e2.container colors :=
  @colour_consistent

/-- **C15 (message with trailing line breaks trimmed)**, nothing else -/
theorem C15_trimRight_spec :
    ∀ (s : List Nat),
      ∃ (tail : List Nat),
        s = trimRight s ++ tail ∧
          (∀ (c : Nat), c ∈ tail → c = 13 ∨ c = 10) ∧ ∀ (c : Nat), (trimRight s).getLast? = some c → c ≠ 13 ∧ c ≠ 10 :=
  @trimRight_spec

/-- the timestamp field consists of digits and `-T:.Z` only -/
theorem C15_rfc3339Nano_bytes :
    ∀ (t b : Nat), b ∈ rfc3339Nano t → 48 ≤ b ∧ b ≤ 57 ∨ b = 45 ∨ b = 84 ∨ b = 58 ∨ b = 46 ∨ b = 90 :=
  @rfc3339Nano_bytes

/-- **C15 (the timestamp column is exact)**: the RFC3339-nanosecond text printed for an entry denotes the
entry's instant to the nanosecond, for every instant of the years 1970–9999 (hand-added; calendar proof
in Lemmas/Calendar.lean) -/
theorem C15_timestamp_denotes_entry_time (t : Nat) (ht : t < 253402300800000000000) :
    Rfc3339.parse (rfc3339Nano t) = some (t : Int) :=
  Calendar.rfc3339_roundtrip t ht

end Render.C15
