import Verif.Lemmas.C19
/-! # C19 — Filters obey the algebra of sets

Theorems over `LogQL.iterate` (the model of `entryIterator` + pipeline, tied to the code by the
C01/C19 correspondence) for a pure filter appended to an *arbitrary* pipeline (any stages,
including stateful `distinct`, rewriting and parser stages), any selector, any records, any
environment (regex engine, parsers) and no limit.  Pure filters = line filters and label
predicates built from string matchers; comparison filters are excluded for the reason
`C19_commute_fails_for_comparators` exhibits (they write `__error__`). -/
namespace LogQL.C19

/-- **C19 (core)**: appending a pure filter filters the result, nothing else changes -/
theorem C19_append_filter (env : Env) (sel : List StrMatcher) (stages : List Stage) (f : Stage) (hf : pureFilter f = true)
    (limit : Int) (hl : limit ≤ 0) (recs : List Rec) :
    run env sel (stages ++ [f]) limit recs = (run env sel stages limit recs).filter (fun e => sat env f e.line e.labels) :=
  append_filter env sel stages f hf limit hl recs

/-- **C19 (sub-multiset)**: `q | f` returns a sub-list of `q` -/
theorem C19_filter_sublist (env : Env) (sel : List StrMatcher) (stages : List Stage) (f : Stage) (hf : pureFilter f = true)
    (limit : Int) (hl : limit ≤ 0) (recs : List Rec) :
    (run env sel (stages ++ [f]) limit recs).Sublist (run env sel stages limit recs) :=
  filter_sublist env sel stages f hf limit hl recs

/-- **C19 (partition)**: a filter and its negation (`|=`/`!=`, `|~`/`!~`, label `=`/`!=`, `=~`/`!~`)
split `q`'s result into two disjoint parts that together are `q`'s result -/
theorem C19_partition (env : Env) (sel : List StrMatcher) (stages : List Stage) (f : Stage) (hf : simpleFilter f = true)
    (limit : Int) (hl : limit ≤ 0) (recs : List Rec) :
    run env sel (stages ++ [negFilter f]) limit recs = (run env sel stages limit recs).filter (fun e => !sat env f e.line e.labels) ∧
    ((run env sel (stages ++ [f]) limit recs) ++ (run env sel (stages ++ [negFilter f]) limit recs)).Perm
      (run env sel stages limit recs) :=
  ⟨partition env sel stages f hf limit hl recs, partition_perm env sel stages f hf limit hl recs⟩

/-- **C19 (commutation)**: stateless filters commute -/
theorem C19_commute (env : Env) (sel : List StrMatcher) (stages : List Stage) (f g : Stage)
    (hf : pureFilter f = true) (hg : pureFilter g = true) (limit : Int) (hl : limit ≤ 0) (recs : List Rec) :
    run env sel (stages ++ [f, g]) limit recs = run env sel (stages ++ [g, f]) limit recs :=
  commute env sel stages f g hf hg limit hl recs

/-- **C19 (idempotence)** -/
theorem C19_idempotent (env : Env) (sel : List StrMatcher) (stages : List Stage) (f : Stage) (hf : pureFilter f = true)
    (limit : Int) (hl : limit ≤ 0) (recs : List Rec) :
    run env sel (stages ++ [f, f]) limit recs = run env sel (stages ++ [f]) limit recs :=
  idempotent env sel stages f hf limit hl recs

/-- **C19 (`and` = intersection, `or` = union)** -/
theorem C19_and_inter (env : Env) (sel : List StrMatcher) (stages : List Stage) (p q : Pred)
    (hp : purePred p = true) (hq : purePred q = true) (limit : Int) (hl : limit ≤ 0) (recs : List Rec) :
    run env sel (stages ++ [.labelFilter (.and p q)]) limit recs =
      (run env sel stages limit recs).filter (fun e => sat env (.labelFilter p) e.line e.labels && sat env (.labelFilter q) e.line e.labels) :=
  and_inter env sel stages p q hp hq limit hl recs

theorem C19_or_union (env : Env) (sel : List StrMatcher) (stages : List Stage) (p q : Pred)
    (hp : purePred p = true) (hq : purePred q = true) (limit : Int) (hl : limit ≤ 0) (recs : List Rec) :
    run env sel (stages ++ [.labelFilter (.or p q)]) limit recs =
      (run env sel stages limit recs).filter (fun e => sat env (.labelFilter p) e.line e.labels || sat env (.labelFilter q) e.line e.labels) :=
  or_union env sel stages p q hp hq limit hl recs

/-- **C19 (always-true filter)**: `|= ""` changes nothing -/
theorem C19_contains_empty_id (env : Env) (sel : List StrMatcher) (stages : List Stage) (limit : Int) (hl : limit ≤ 0)
    (recs : List Rec) (re : Regex.Re) :
    run env sel (stages ++ [.lineFilter .eq [] re]) limit recs = run env sel stages limit recs :=
  contains_empty_id env sel stages limit hl recs re

/-- the hypothesis "pure" is needed: a comparison filter (which writes `__error__`) does not commute
with a filter reading `__error__` — inherent to LogQL; the real code is run at this point by the
correspondence and behaves as the model says -/
theorem C19_commute_fails_for_comparators :
    run trivEnv [] ([] ++ [.labelFilter (.num [120] .gt 5), .labelFilter (.str ⟨errorLabel, .eq, [], .eps⟩)]) 0
        [⟨0, [], [([120], [121])]⟩] ≠
    run trivEnv [] ([] ++ [.labelFilter (.str ⟨errorLabel, .eq, [], .eps⟩), .labelFilter (.num [120] .gt 5)]) 0
        [⟨0, [], [([120], [121])]⟩] :=
  commute_fails_for_comparators

end LogQL.C19
