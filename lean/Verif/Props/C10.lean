import Verif.Lemmas.C10
/-! # C10 — A metric series is identified by its label set, nothing else

Theorems over `Metric.groupBySet` (how `rangeAggIterator`, `vectorAgg*Iterator` and `ReadStepResponse` group by `GroupingKey`) and over the encoding that `aggregatedLabels.Key()` feeds to the hash after the repair (entries sorted by name, every string length-prefixed).  The code identifies a label set by a 64-bit hash of that encoding: `C10_same_key_iff_sameSet` is relative to an injective hash (an explicit hypothesis, not an axiom; xxhash collisions exist but are not constructible by the generators).  Tied to the code by the C10 correspondence (repeated evaluation to sample map orders; label sets that are prefixes/concatenations of one another). -/
namespace Metric.C10
open LogQL Metric

/-- **C10 (no two series with the same label set)**: grouping yields pairwise different label sets -/
theorem C10_groups_distinct :
    ∀ {α : Type u_1} (key : α → AggLabels) (xs : List α),
      List.Pairwise (fun (g h : AggLabels × List α) => sameSet g.fst h.fst = false) (groupBySet key xs) :=
  @groups_distinct

/-- **C10 (equal label sets contribute to the same series)**: every sample lies in the group of its label set -/
theorem C10_every_element_grouped :
    ∀ {α : Type u_1} (key : α → AggLabels) (xs : List α),
      (∀ (x : α), x ∈ xs → WFSet (key x)) →
        ∀ (x : α), x ∈ xs → ∃ (g : AggLabels × List α), g ∈ groupBySet key xs ∧ sameSet g.fst (key x) = true ∧ x ∈ g.snd :=
  @every_element_grouped

/-- **C10 (different label sets never contribute)**: a group holds exactly the samples with its label set, in arrival order -/
theorem C10_group_members :
    ∀ {α : Type u_1} (key : α → AggLabels) (xs : List α),
      (∀ (x : α), x ∈ xs → WFSet (key x)) →
        ∀ (g : AggLabels × List α), g ∈ groupBySet key xs → g.snd = List.filter (fun (x : α) => sameSet g.fst (key x)) xs :=
  @group_members

/-- no empty series -/
theorem C10_group_nonempty :
    ∀ {α : Type u_1} (key : α → AggLabels) (xs : List α) (g : AggLabels × List α),
      g ∈ groupBySet key xs → g.snd ≠ [] :=
  @group_nonempty

/-- grouping neither loses nor duplicates samples -/
theorem C10_groups_flatten_perm :
    ∀ {α : Type u_1} (key : α → AggLabels) (xs : List α),
      (List.flatMap (fun (x : AggLabels × List α) => x.snd) (groupBySet key xs)).Perm xs :=
  @groups_flatten_perm

/-- group sizes add up to the number of samples -/
theorem C10_groups_total :
    ∀ {α : Type u_1} (key : α → AggLabels) (xs : List α),
      (List.map (fun (g : AggLabels × List α) => g.snd.length) (groupBySet key xs)).sum = xs.length :=
  @groups_total

/-- no step of a range aggregation reports a label set twice -/
theorem C10_rangeRun_no_duplicate_series :
    ∀ (op : RangeOp) (param : Option Rat) (rangeNs offsetNs : Int) (hasUnwrap : Bool)
      (regroup : AggLabels → AggLabels) (ts : List Int) (window pending : List Smp) (st : Step),
      st ∈ rangeRun op param rangeNs offsetNs hasUnwrap regroup ts window pending →
        List.Pairwise (fun (a b : Sample) => sameSet a.set b.set = false) st.samples :=
  @rangeRun_no_duplicate_series

/-- nor does a vector aggregation -/
theorem C10_vecStep_no_duplicate_series :
    ∀ (op : VecOp),
      op ∈ aggOps →
        ∀ (param : Option Int) (g : Option Grouping) (s : Step),
          List.Pairwise (fun (a b : Sample) => sameSet a.set b.set = false) (vecStep op param g s).samples :=
  @vecStep_no_duplicate_series

/-- nor does the final matrix -/
theorem C10_readSteps_no_duplicate_series :
    ∀ (steps : List Step),
      List.Pairwise (fun (a b : Series) => sameLabels a.labels b.labels = false) (readSteps false steps) :=
  @readSteps_no_duplicate_series

/-- **C10 (per-step totals are conserved)**: the counts reported across all series at a step add up to the number of samples in the window -/
theorem C10_step_total_conserved :
    ∀ {α : Type u_1} (key : α → AggLabels) (val : α → Val) (p : Option Rat) (r : Int) (u : Bool)
      (w : List α),
      List.map (fun (g : AggLabels × List α) => aggregate RangeOp.count p r u (List.map val g.snd)) (groupBySet key w) =
          List.map (fun (g : AggLabels × List α) => Val.q (↑g.snd.length : Rat)) (groupBySet key w) ∧
        (List.map (fun (g : AggLabels × List α) => g.snd.length) (groupBySet key w)).sum = w.length :=
  @step_total_conserved

/-- the length-prefixed encoding of a label list is injective -/
theorem C10_encode_injective :
    ∀ (a b : Labels),
      (∀ (kv : Bytes × Bytes), kv ∈ a → List.length kv.fst < 2 ^ 64 ∧ List.length kv.snd < 2 ^ 64) →
        (∀ (kv : Bytes × Bytes), kv ∈ b → List.length kv.fst < 2 ^ 64 ∧ List.length kv.snd < 2 ^ 64) →
          encode a = encode b → a = b :=
  @encode_injective

/-- the unrepaired plain concatenation was not: {a="bc"} vs {ab="c"} (defect D8) -/
theorem C10_concat_ambiguous :
    ∃ (a : Labels),
      ∃ (b : Labels),
        a ≠ b ∧
          List.flatMap (fun (kv : Bytes × Bytes) => kv.fst ++ kv.snd) a =
            List.flatMap (fun (kv : Bytes × Bytes) => kv.fst ++ kv.snd) b :=
  @concat_ambiguous

/-- sorting by name removes the dependence on the order in which the runtime materialises the label map (defect D7) -/
theorem C10_sortByName_perm_invariant :
    ∀ (a b : Labels), List.Perm a b → (List.map Prod.fst a).Nodup → sortByName a = sortByName b :=
  @sortByName_perm_invariant

/-- **C10 (map order)**: the key does not depend on the materialisation order -/
theorem C10_key_perm_invariant :
    ∀ (h : List Nat → Nat) (a b : Labels),
      List.Perm a b → (List.map Prod.fst a).Nodup → h (encode (sortByName a)) = h (encode (sortByName b)) :=
  @key_perm_invariant

/-- **C10 (identity)**: under an injective hash two samples get the same key iff their visible label sets are equal -/
theorem C10_same_key_iff_sameSet :
    ∀ (h : List Nat → Nat),
      Function.Injective h →
        ∀ (a b : AggLabels),
          WFSet a →
            WFSet b →
              (∀ (kv : Bytes × Bytes), kv ∈ a.visible → List.length kv.fst < 2 ^ 64 ∧ List.length kv.snd < 2 ^ 64) →
                (∀ (kv : Bytes × Bytes), kv ∈ b.visible → List.length kv.fst < 2 ^ 64 ∧ List.length kv.snd < 2 ^ 64) →
                  (h (encode (sortByName a.visible)) = h (encode (sortByName b.visible)) ↔ sameSet a b = true) :=
  @same_key_iff_sameSet


end Metric.C10
