import Verif.Lemmas.C13Generic
import Verif.Lemmas.C09
import Verif.Lemmas.C16
import Verif.Lemmas.C17Extra
/-! # C17 — Evaluation never panics or hangs on any query or log content

**Partial by nature** (DESIGN.md §5 C17).  What a model can carry: every function of the Lean model
is total and accepted by Lean's termination checker, so for the *modelled* control flow termination
is a theorem; the statements below make the quantitative content explicit (how many steps, which
fuel suffices, which loops consume input).  Panic-freedom of library and glue code (text/template,
sprig, jx, logfmt, regexp, pdata, nil/assertion mistakes) is a runtime fact: it is *explored*, not
proved — every case of every property runs under `recover()` and a watchdog, and the C17 check adds
grammar-derived, token-mutated and random queries crossed with hostile log contents. -/
namespace C17
open Metric BinOpParser

/-- **C17 (finite grid)**: a positive step yields ⌊(end − start)/step⌋ + 1 evaluation steps — the step
iterators terminate.  (A step ≤ 0 does not: that is why C16 rejects it.) -/
theorem C17_grid_finite (start end_ step : Int) (hstep : 0 < step) (h : start ≤ end_) :
    (grid start end_ step).length = ((end_ - start) / step).toNat + 1 :=
  Metric.C09.grid_length start end_ step hstep h

/-- **C17 (window filling consumes input)**: one call of `fillWindow` splits the pending samples into
a consumed prefix and the untouched rest; it never re-reads or invents input. -/
theorem C17_fill_consumes (ws we : Int) (w pend : List Smp) (hs : Metric.C09.SortedTs pend) :
    ∃ taken rest, pend = taken ++ rest ∧ (fill ws we w pend).2 = rest ∧ rest.length ≤ pend.length := by
  obtain ⟨taken, rest, hp, _, _, hf⟩ := Metric.C09.fill_spec ws we w pend hs
  exact ⟨taken, rest, hp, by rw [hf], by rw [hp]; simp⟩

/-- **C17 (the binary-operator loops terminate)**: with fuel 2·|tokens| + 2 — what `parseExpr` supplies —
the parser's nested loops never run out of fuel: they compute exactly the (total) precedence-climbing
specification, on every token list including ill-formed ones. -/
theorem C17_parser_fuel_adequate (prec : BinOp → Nat) (left : Tree) (minPrec : Nat) (toks : List Tok) (F : Nat)
    (hF : 2 * toks.length + 2 ≤ F) :
    parseBinOp prec F left minPrec toks = climb prec allRight F left minPrec toks :=
  BinOpParser.C13.parseBinOp_eq_climb_fuel prec left minPrec toks F hF

/-- …and more fuel never changes an answer of the specification -/
theorem C17_climb_fuel_monotone {prec : BinOp → Nat} {ra : BinOp → Bool} {f : Nat} {left : Tree} {mp : Nat}
    {toks : List Tok} {r : Tree × List Tok} {F : Nat}
    (h : climb prec ra f left mp toks = some r) (hF : toks.length + 1 ≤ F) : climb prec ra F left mp toks = some r :=
  BinOpParser.C13.climb_adequate h hF

/-- **C17 (a hanging configuration is rejected)**: a step that `parseStep` accepts is positive, so the
grid above is always finite for parameters the CLI produces -/
theorem C17_accepted_step_terminates (step : Option (List Nat)) (start end_ d : Int)
    (h : Flags.parseStep step start end_ = some d) (hse : start ≤ end_) :
    (grid start end_ d).length = ((end_ - start) / d).toNat + 1 :=
  Metric.C09.grid_length start end_ d (Flags.C16.step_positive step start end_ d h) hse

/-- **C17 (no index out of range in `quantile`)**: for a parameter in [0,1] and a non-empty window both
indices the code reads (`values[int(lowerIndex)]`, `values[int(upperIndex)]`) lie inside the sorted window -/
theorem C17_quantile_indices_in_range (p : Rat) (vs : List Val) (rs : List Rat)
    (hne : vs ≠ []) (h0 : 0 ≤ p) (h1 : p ≤ 1) (hr : ratsOf vs = some rs) :
    let sorted := rs.foldl (fun acc x => insertRat x acc) []
    let rank : Rat := p * ((sorted.length : Rat) - 1)
    let lo : Nat := rank.floor.toNat
    let hi : Nat := min (sorted.length - 1) (lo + 1)
    lo < sorted.length ∧ hi < sorted.length :=
  C17Extra.quantileVal_indices p vs rs hne h0 h1 hr

/-- **C17 (the range iterator makes one step per grid point)**: it cannot loop -/
theorem C17_rangeRun_one_step_per_grid_point (op : RangeOp) (param : Option Rat) (rangeNs offsetNs : Int)
    (hasUnwrap : Bool) (regroup : AggLabels → AggLabels) (ts : List Int) (w pend : List Smp) :
    (rangeRun op param rangeNs offsetNs hasUnwrap regroup ts w pend).length = ts.length :=
  C17Extra.rangeRun_length op param rangeNs offsetNs hasUnwrap regroup ts w pend

/-- **C17 (the window buffer is bounded by what was read)**: evicting and refilling never holds more
samples than the window and the unread input held before -/
theorem C17_window_bounded (ws we : Int) (w pend : List Smp) :
    (fill ws we (clear ws w) pend).1.length + (fill ws we (clear ws w) pend).2.length ≤ w.length + pend.length :=
  C17Extra.step_length_le ws we w pend

/-- **C17 (the merge ends)**: the heap-based merge of the container logs emits exactly as many records as
there are, so its loop runs once per record and stops -/
theorem C17_merge_terminates (srcs : List (List Merge.Rec)) :
    (HeapMerge.merge srcs).length = srcs.flatten.length :=
  C17Extra.merge_length srcs

end C17
