import Verif.Lemmas.Resources
import Verif.Lemmas.ResourcesOpen
/-! # C14 — Failures surface as errors and every opened log reader is closed

Theorems over `Resources.eval`, the model of the open/close protocol and of error propagation
across `dockerlog.Querier.SelectLogs`, `Engine.selectLogs`/`evalLogExpr`/`evalExpr` and
`logqlmetric.build` (tied to the code by the C14 fault-injection correspondence).
Quantification: every query shape `q`, every fault plan carried by `q` (any number of faults, at
any selection / container), every start state.  The completion order of the concurrent opens does
not appear because all opens of a selection are attempted whatever the order
(`Merge.C04_open_order_irrelevant`). -/
namespace Resources

/-- **C14 (no leak)**: whatever fails, every reader opened during an evaluation has been closed
when the evaluation returns — log and metric queries, success and every failure path. -/
theorem C14_no_leak (q : Q) (st : St) (h : Covered st []) : Covered (eval q st).2 [] := no_leak q st h

/-- starting from nothing opened: `opened ⊆ closed` afterwards -/
theorem C14_no_leak_init (q : Q) : ∀ r ∈ (eval q init).2.opened, r ∈ (eval q init).2.closed := by
  have := no_leak q init (by intro r hr; simp [init] at hr)
  intro r hr
  rcases this r hr with h | h
  · exact h
  · simp at h

/-- **C14 (failures surface)**: if anything in the plan goes wrong — listing, opening any
container, a broken stream (read error, truncated body, daemon-error or corrupt frame), an invalid
stage, an unsupported construct — the query returns an error, never a result. -/
theorem C14_fault_surfaces (q : Q) (st : St) (hw : q.wf = true) (hf : q.hasFault = true) :
    (eval q st).1 ≠ none := fault_surfaces q st hw hf

/-- and only then: without a fault the query succeeds (so the error is not a blanket failure) -/
theorem C14_no_fault_success (q : Q) (st : St) (hw : q.wf = true) (hf : q.hasFault = false) :
    (eval q st).1 = none := no_fault_success q st hw hf

/-- nothing is closed that was never opened -/
theorem C14_closed_sub_opened (q : Q) : ∀ r ∈ (eval q init).2.closed, r ∈ (eval q init).2.opened :=
  closed_sub_opened q init (by intro r hr; simp [init] at hr)

/-- a stream cut inside a frame *header* is a clean end (C03), not a fault: a plan whose streams
all end cleanly has no fault and succeeds -/
theorem C14_clean_end_is_not_a_fault (n : Nat) :
    (eval (.range ⟨true, false, List.replicate n .ok⟩ true) init).1 = none := by
  apply no_fault_success
  · rfl
  · simp [Q.hasFault, Sel.hasFault]

/-- opened and closed are the same set of readers after any evaluation from nothing opened -/
theorem C14_opened_iff_closed (q : Q) (r : Rid) :
    r ∈ (eval q init).2.opened ↔ r ∈ (eval q init).2.closed :=
  ⟨C14_no_leak_init q r, C14_closed_sub_opened q r⟩

/-- **which readers a log query opens**: exactly the selected containers whose open does not
fail — every open is attempted even when another one fails (no cancellation on the first
failure), and nothing is opened when the pipeline cannot be built or listing fails.  The
correspondence compares this set (and the closed set) with the readers the fake daemon handed
out. -/
theorem C14_log_opened (s : Sel) (r : Rid) :
    r ∈ (eval (.log s) init).2.opened ↔
      (s.stageOk = true ∧ s.listFails = false ∧
        ∃ j, ∃ h : j < s.ctrs.length, r = (0, j) ∧ s.ctrs[j] ≠ .openFail) :=
  eval_log_opened s r

/-- an invalid stage or a failed listing is reported before any log is opened -/
theorem C14_early_failure_opens_nothing (s : Sel) (h : s.stageOk = false ∨ s.listFails = true) :
    (eval (.log s) init).2.opened = [] := by
  apply List.eq_nil_iff_forall_not_mem.mpr
  intro r hr
  have := (eval_log_opened s r).mp hr
  rcases h with h | h <;> simp [h] at this

/-- with one open failing, the other selected containers are still opened — and therefore closed
(`C14_opened_iff_closed`): the failure path of `SelectLogs` has readers to clean up -/
theorem C14_open_failure_closes_the_others (s : Sel) (j : Nat) (hj : j < s.ctrs.length)
    (hs : s.stageOk = true) (hl : s.listFails = false) (hne : s.ctrs[j] ≠ .openFail) :
    (0, j) ∈ (eval (.log s) init).2.closed :=
  (C14_opened_iff_closed _ _).mp ((eval_log_opened s (0, j)).mpr ⟨hs, hl, j, hj, rfl, hne⟩)

/-- a range aggregation opens its selection like the log query does, whether or not the
aggregation itself can be built afterwards -/
theorem C14_range_opened (s : Sel) (aggOk : Bool) (r : Rid) :
    r ∈ (eval (.range s aggOk) init).2.opened ↔ r ∈ (eval (.log s) init).2.opened :=
  eval_range_opened s aggOk r

/-- operands of a binary operation are built left to right; when the left one fails (its
selection fails, or its range operation is unsupported) the right operand is never opened: the
readers that exist are those of the left selection (all closed, `C14_opened_iff_closed`) -/
theorem C14_binop_left_failure_short_circuits (ok : Bool) (s1 : Sel) (a1 : Bool) (rq : Q) (r : Rid)
    (hf : (selectLogs s1 init).1.isOk = false ∨ a1 = false) :
    r ∈ (eval (.binop ok (.range s1 a1) rq) init).2.opened ↔ r ∈ (eval (.log s1) init).2.opened :=
  binop_left_failure_short_circuits ok s1 a1 rq r hf

-- non-vacuity: open failure on the left, the right selection (index 1) is never opened
example : (eval (.binop true (.range ⟨true, false, [.ok, .openFail]⟩ true) (.range ⟨true, false, [.ok, .ok]⟩ true)) init).2.opened
    = [(0, 0)] := by decide
example : (selectLogs ⟨true, false, [.ok, .openFail]⟩ init).1.isOk = false := by decide

/-- vector aggregations and literal operands open nothing of their own: `sum by (..) (q)` and
`q * 2` open exactly the readers of `q`, also when the wrapper itself cannot be built (and
`C14_opened_iff_closed` says they are all closed) -/
theorem C14_wrappers_open_nothing (q : Q) (st : St) (hq : q.isMetric = true) (ok : Bool) :
    (eval (.vecAgg ok q) st).2.opened = (eval q st).2.opened ∧
    (eval (.litOp q) st).2.opened = (eval q st).2.opened :=
  eval_wrapper_opened q st hq ok

-- non-vacuity: an unsupported aggregation over a selection of two containers
example : (eval (.vecAgg false (.range ⟨true, false, [.ok, .ok]⟩ true)) init).2.closed = [(0, 0), (0, 1)] := by decide

-- non-vacuity: open failure in the middle, both neighbours opened and closed
example : (eval (.log ⟨true, false, [.ok, .openFail, .streamFault]⟩) init).2.closed = [(0, 0), (0, 2)] := by decide

-- non-vacuity: a binary operation over two selections, open failure in the second one
example : (eval (.binop true (.range ⟨true, false, [.ok, .ok]⟩ true) (.range ⟨true, false, [.ok, .openFail, .ok]⟩ true)) init).1
    = some .open := by decide
example : (Q.binop true (.range ⟨true, false, [.ok, .ok]⟩ true) (.range ⟨true, false, [.ok, .openFail, .ok]⟩ true)).hasFault = true := by decide
example : Covered init [] := by intro r hr; simp [init] at hr

end Resources
