import Verif.Lemmas.C08
/-! # C08 — Log results are partitioned into ordered streams and honour the limit

Theorems over `LogQL.group` (model of `groupEntries`) and `LogQL.iterate` (model of `entryIterator` with its limit), tied to the code by the C08 correspondence.  `WF` = label sets with distinct keys, which every entry the pipeline produces satisfies (`C08_iterate_wf`).  The statements are those of `Verif/Lemmas/C08.lean`, given their property names here. -/
namespace LogQL.C08
open LogQL

/-- every entry the pipeline produces carries a well-formed label set (distinct keys), whatever the stages -/
theorem C08_iterate_wf :
    ∀ (env : Env) (pre : List StrMatcher) (stages : List Stage) (limit : Int) (recs : List Rec)
      (seens : List Seen) (count : Nat) (e : Entry), e ∈ iterate env pre stages limit recs seens count → WF e.labels :=
  @iterate_wf

/-- **C08 (no two streams share a label set)** -/
theorem C08_streams_distinct :
    ∀ (es : List Entry),
      List.Pairwise (fun (s t : LogQL.Stream) => sameLabels s.labels t.labels = false) (group es) :=
  @streams_distinct

/-- **C08 (every entry sits in the stream carrying exactly its labels)** -/
theorem C08_entry_in_stream :
    ∀ (es : List Entry),
      (∀ (e : Entry), e ∈ es → WF e.labels) →
        ∀ (e : Entry),
          e ∈ es → ∃ (s : LogQL.Stream), s ∈ group es ∧ sameLabels s.labels e.labels = true ∧ (e.ts, e.line) ∈ s.entries :=
  @entry_in_stream

/-- **C08 (a stream holds exactly the entries with its label set)**, as a multiset -/
theorem C08_stream_members :
    ∀ (es : List Entry),
      (∀ (e : Entry), e ∈ es → WF e.labels) →
        ∀ (s : LogQL.Stream),
          s ∈ group es →
            s.entries.Perm
              (List.map (fun (e : Entry) => (e.ts, e.line))
                (List.filter (fun (e : Entry) => sameLabels s.labels e.labels) es)) :=
  @stream_members

/-- …and in exactly the stable time order of those entries -/
theorem C08_stream_members_sorted :
    ∀ (es : List Entry),
      (∀ (e : Entry), e ∈ es → WF e.labels) →
        ∀ (s : LogQL.Stream),
          s ∈ group es →
            s.entries =
              sortByTs
                (List.map (fun (e : Entry) => (e.ts, e.line))
                  (List.filter (fun (e : Entry) => sameLabels s.labels e.labels) es)) :=
  @stream_members_sorted

/-- **C08 (conservation)**: the streams' sizes add up to the number of matching records -/
theorem C08_total_entries :
    ∀ (es : List Entry), (List.map (fun (s : LogQL.Stream) => s.entries.length) (group es)).sum = es.length :=
  @total_entries

/-- **C08 (order)**: entries within a stream are in timestamp order -/
theorem C08_stream_sorted :
    ∀ (es : List Entry) (s : LogQL.Stream), s ∈ group es → SortedTs s.entries :=
  @stream_sorted

/-- no empty stream is reported -/
theorem C08_stream_nonempty :
    ∀ (es : List Entry) (s : LogQL.Stream), s ∈ group es → s.entries ≠ [] :=
  @stream_nonempty

/-- **C08 (non-positive limit)**: every non-positive limit returns all matches -/
theorem C08_limit_nonpos_all :
    ∀ (env : Env) (pre : List StrMatcher) (stages : List Stage) (l1 l2 : Int),
      l1 ≤ 0 →
        l2 ≤ 0 →
          ∀ (recs : List Rec) (seens : List Seen) (count : Nat),
            iterate env pre stages l1 recs seens count = iterate env pre stages l2 recs seens count :=
  @limit_nonpos_all

/-- **C08 (positive limit)**: the limited result is the prefix of the unlimited one (for any state of the stateful stages) -/
theorem C08_limit_prefix :
    ∀ (env : Env) (pre : List StrMatcher) (stages : List Stage) (L : Int),
      0 < L →
        ∀ (recs : List Rec) (seens : List Seen) (count : Nat),
          (↑count : Int) ≤ L →
            iterate env pre stages L recs seens count =
              List.take (L.toNat - count) (iterate env pre stages 0 recs seens count) :=
  @limit_prefix

/-- …of length min(L, N) -/
theorem C08_limit_length :
    ∀ (env : Env) (pre : List StrMatcher) (stages : List Stage) (L : Int),
      0 < L →
        ∀ (recs : List Rec),
          (iterate env pre stages L recs [] 0).length = min L.toNat (iterate env pre stages 0 recs [] 0).length :=
  @limit_length

/-- with records stored in time order the limited result is time-ordered and precedes every dropped match: the first min(L, N) matches in time order -/
theorem C08_limit_earliest :
    ∀ (env : Env) (pre : List StrMatcher) (stages : List Stage) (L : Int),
      0 < L →
        ∀ (recs : List Rec),
          List.Pairwise (fun (a b : Rec) => a.ts ≤ b.ts) recs →
            List.Pairwise (fun (a b : Entry) => a.ts ≤ b.ts) (iterate env pre stages L recs [] 0) ∧
              ∀ (e : Entry),
                e ∈ iterate env pre stages L recs [] 0 →
                  ∀ (d : Entry), d ∈ List.drop L.toNat (iterate env pre stages 0 recs [] 0) → e.ts ≤ d.ts :=
  @limit_earliest

/-- the stream key `{k=quote(v),…}` of `LabelSet.String()` identifies the label list, for any self-delimiting quoting and keys without `=` -/
theorem C08_key_injective :
    ∀ (quote : Bytes → Bytes),
      (∀ (v w r s : Bytes), quote v ++ r = quote w ++ s → v = w ∧ r = s) →
        ∀ (a b : Labels),
          (∀ (kv : Bytes × Bytes), kv ∈ a → ¬61 ∈ kv.fst) →
            (∀ (kv : Bytes × Bytes), kv ∈ b → ¬61 ∈ kv.fst) → key quote a = key quote b → a = b :=
  @key_injective

/-- a model of `strconv.Quote` (escaping quote and backslash) is self-delimiting: the hypothesis of `C08_key_injective` is satisfiable -/
theorem C08_quoteM_delimited :
    ∀ (v w r s : Bytes), quoteM v ++ r = quoteM w ++ s → v = w ∧ r = s :=
  @quoteM_delimited


end LogQL.C08
