import Verif.Lemmas.C13
/-! # C13 — Operator precedence and associativity follow arithmetic convention

Theorems over `BinOpParser.parseExpr` (model of `parser.parseBinOp` with its two nested loops, tied to `logql.Parse` by the C13 tree-shape correspondence) instantiated with the precedence table `Gen.prec` that is REGENERATED from `BinOp.Precedence()` on every run.

**The property is not true of the code**: operators of equal precedence associate to the right (`1-2-3` = `1-(2-3)`), the recorded finding K1 (pinned by the repository's parser tests).  What is proved: the precedence order is the conventional one; parentheses override; the parser is, for every token list and precedence table, exactly all-right-associative precedence climbing (unbounded), hence agrees with the conventional reading iff the two readings coincide; a sufficient condition for that (no two operators of equal precedence other than `^`); the witness of K1.  `C13_chains3_conventional_iff` is the full statement restricted to what holds; the full conventional statement is `chains_conventional_Statement` below and is refuted by `C13_sub_sub_wrong`. -/
namespace BinOpParser.C13
open Metric BinOpParser

/-- **C13 (precedence order)**, on the regenerated table: or < and = unless < comparisons < + − < * / % < ^ -/
theorem C13_prec_order :
    Gen.prec BinOp.or < Gen.prec BinOp.and ∧
      Gen.prec BinOp.and = Gen.prec BinOp.unless ∧
        Gen.prec BinOp.unless < Gen.prec BinOp.eq ∧
          (∀ (o : BinOp),
              o ∈ [BinOp.eq, BinOp.ne, BinOp.gt, BinOp.ge, BinOp.lt, BinOp.le] → Gen.prec o = Gen.prec BinOp.eq) ∧
            Gen.prec BinOp.eq < Gen.prec BinOp.add ∧
              Gen.prec BinOp.add = Gen.prec BinOp.sub ∧
                Gen.prec BinOp.sub < Gen.prec BinOp.mul ∧
                  Gen.prec BinOp.mul = Gen.prec BinOp.div ∧
                    Gen.prec BinOp.div = Gen.prec BinOp.mod ∧ Gen.prec BinOp.mod < Gen.prec BinOp.pow :=
  @prec_order

/-- **C13 (what the parser is)**: for every token list (any length, nested parentheses) and every precedence table the parser's nested loops are exactly precedence climbing with every operator right-associative -/
theorem C13_parseExpr_eq_specExpr_allRight :
    ∀ (prec : BinOp → Nat) (toks : List Tok),
      parseExpr prec toks = specExpr prec allRight toks :=
  @parseExpr_eq_specExpr_allRight

/-- hence the parser gives the conventional tree iff the conventional and the all-right-associative readings coincide -/
theorem C13_parseExpr_conventional_iff :
    ∀ (toks : List Tok),
      parseExpr Gen.prec toks = specExpr Gen.prec conventional toks ↔
        specExpr Gen.prec allRight toks = specExpr Gen.prec conventional toks :=
  @parseExpr_conventional_iff

/-- **C13 (partial)**: the conventional reading is obtained whenever no two operators other than `^` share a precedence level -/
theorem C13_parseExpr_conventional_of_distinct_prec :
    ∀ (toks : List Tok),
      (List.map Gen.prec (List.filter (fun (x : BinOp) => decide (x ≠ BinOp.pow)) (opsOf toks))).Nodup →
        parseExpr Gen.prec toks = specExpr Gen.prec conventional toks :=
  @parseExpr_conventional_of_distinct_prec

/-- the two readings coincide when any two operators of equal precedence are both `^` -/
theorem C13_conventional_eq_allRight_of_pairwise :
    ∀ (toks : List Tok),
      List.Pairwise (fun (o o' : BinOp) => Gen.prec o = Gen.prec o' → o = BinOp.pow) (opsOf toks) →
        specExpr Gen.prec conventional toks = specExpr Gen.prec allRight toks :=
  @conventional_eq_allRight_of_pairwise

/-- precedence climbing depends on the associativity table only through operators that are followed by an operator of the same precedence -/
theorem C13_climb_ra_irrelevant :
    ∀ (prec : BinOp → Nat) (ra1 ra2 : BinOp → Bool) (toks : List Tok),
      AgreeWhereItMatters prec ra1 ra2 toks →
        ∀ (fuel : Nat) (left : Tree) (minPrec : Nat),
          climb prec ra1 fuel left minPrec toks = climb prec ra2 fuel left minPrec toks ∧
            spec1 prec ra1 fuel toks = spec1 prec ra2 fuel toks :=
  @climb_ra_irrelevant

/-- kernel-checked table: all 15 + 225 + 3375 chains of up to three operators parse as the all-right-associative tree -/
theorem C13_chains3_right :
    ∀ (c : List BinOp),
      c ∈ allChains 1 ++ allChains 2 ++ allChains 3 →
        parseExpr Gen.prec (chainToks c) = specExpr Gen.prec allRight (chainToks c) :=
  @chains3_right

/-- …and agree with the conventional tree exactly where the two readings coincide -/
theorem C13_chains3_conventional_iff :
    ∀ (c : List BinOp),
      c ∈ allChains 1 ++ allChains 2 ++ allChains 3 →
        (parseExpr Gen.prec (chainToks c) = specExpr Gen.prec conventional (chainToks c) ↔
          specExpr Gen.prec allRight (chainToks c) = specExpr Gen.prec conventional (chainToks c)) :=
  @chains3_conventional_iff

/-- …none of them failing to parse (the equalities are not `none = none`) -/
theorem C13_chains3_parse :
    ∀ (c : List BinOp),
      c ∈ allChains 1 ++ allChains 2 ++ allChains 3 → (parseExpr Gen.prec (chainToks c)).isSome = true :=
  @chains3_parse

/-- **K1 witness**: `0 − 1 − 2` is parsed as `0 − (1 − 2)`, whose value differs from the conventional `(0 − 1) − 2` -/
theorem C13_sub_sub_wrong :
    parseExpr Gen.prec (chainToks [BinOp.sub, BinOp.sub]) =
        some ((Tree.leaf 0).node BinOp.sub ((Tree.leaf 1).node BinOp.sub (Tree.leaf 2))) ∧
      specExpr Gen.prec conventional (chainToks [BinOp.sub, BinOp.sub]) =
          some (((Tree.leaf 0).node BinOp.sub (Tree.leaf 1)).node BinOp.sub (Tree.leaf 2)) ∧
        evalTree [1, 2, 3] ((Tree.leaf 0).node BinOp.sub ((Tree.leaf 1).node BinOp.sub (Tree.leaf 2))) ≠
          evalTree [1, 2, 3] (((Tree.leaf 0).node BinOp.sub (Tree.leaf 1)).node BinOp.sub (Tree.leaf 2)) :=
  @sub_sub_wrong

/-- **C13 (parentheses override)**: a parenthesised sub-expression is a primary -/
theorem C13_paren_overrides :
    parseExpr Gen.prec
          [Tok.lparen, Tok.num 0, Tok.op BinOp.add, Tok.num 1, Tok.rparen, Tok.op BinOp.mul, Tok.num 2] =
        some (((Tree.leaf 0).node BinOp.add (Tree.leaf 1)).paren.node BinOp.mul (Tree.leaf 2)) ∧
      parseExpr Gen.prec [Tok.num 0, Tok.op BinOp.mul, Tok.lparen, Tok.num 1, Tok.op BinOp.add, Tok.num 2, Tok.rparen] =
        some ((Tree.leaf 0).node BinOp.mul ((Tree.leaf 1).node BinOp.add (Tree.leaf 2)).paren) :=
  @paren_overrides

/-- the loop-level refinement behind `parseExpr_eq_specExpr_allRight` -/
theorem C13_parseBinOp_eq_climb :
    ∀ (prec : BinOp → Nat) (fuel : Nat) (left : Tree) (minPrec : Nat) (toks : List Tok),
      (parseBinOp prec fuel left minPrec toks).isSome = true →
        ∃ (fuel' : Nat), climb prec allRight fuel' left minPrec toks = parseBinOp prec fuel left minPrec toks :=
  @parseBinOp_eq_climb

/-- the property's full statement over the model (FALSE on the current tree: see `C13_sub_sub_wrong`, finding K1) -/
def chains_conventional_Statement : Prop :=
  ∀ toks, parseExpr Gen.prec toks = specExpr Gen.prec conventional toks

theorem C13_chains_conventional_Statement_refuted : ¬ chains_conventional_Statement := by
  intro h
  have h1 := h (chainToks [.sub, .sub])
  have h2 := sub_sub_wrong
  rw [h2.1, h2.2.1] at h1
  exact absurd h1 (by decide)

end BinOpParser.C13
