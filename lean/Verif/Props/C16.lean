import Verif.Lemmas.C16
import Verif.Lemmas.C16Rfc
/-! # C16 — Time-range and step flags resolve as documented

Theorems over `Flags.parseTimestamp` / `parseTimeRange` / `parseStep` / `defaultStep` (models of cmd/docker-logql/params.go, tied to the `verif`-tagged build by the C16 correspondence).  Exact decimal arithmetic: Go's float64 parsing/rounding of the fractional spelling is outside the model and validated over all 1000 millisecond values.  The RFC3339 spelling is covered by the correspondence (instants 2001-2200 with zone offsets), not by a theorem (no calendar round-trip proof). -/
namespace Flags.C16
open Flags

/-- **C16 (--end defaults to now)** -/
theorem C16_end_default_now :
    ∀ (now : Int) (start since : Option (List Nat)) (s e : Int),
      parseTimeRange now start none since = some (s, e) → e = now :=
  @end_default_now

/-- **C16 (--since defaults to 6h)** -/
theorem C16_since_default_6h :
    ∀ (now s e : Int),
      parseTimeRange now none none none = some (s, e) → e = now ∧ s = now - 6 * 3600 * 1000000000 :=
  @since_default_6h

/-- **C16 (--start defaults to min(end, now) − since)** -/
theorem C16_start_default :
    ∀ (now : Int) (end_ since : Option (List Nat)) (sinceNs e : Int),
      (match since with
          | none => some (6 * 3600 * 1000000000)
          | some x => parsePromDuration x) =
          some sinceNs →
        parseTimestamp (end_.getD []) now = some e →
          parseTimeRange now none end_ since = some ((if e > now then now else e) - sinceNs, e) :=
  @start_default

/-- **C16 (explicit values are honoured)**: a non-empty value never depends on the default -/
theorem C16_explicit_honoured :
    ∀ (v : List Nat), v ≠ [] → ∀ (d1 d2 : Int), parseTimestamp v d1 = parseTimestamp v d2 :=
  @explicit_honoured

/-- an explicit start is what it spells -/
theorem C16_explicit_start :
    ∀ (now : Int) (sv : List Nat),
      sv ≠ [] →
        ∀ (end_ since : Option (List Nat)) (s e : Int),
          parseTimeRange now (some sv) end_ since = some (s, e) → ∀ (d : Int), parseTimestamp sv d = some s :=
  @explicit_start

/-- an explicit end is what it spells -/
theorem C16_explicit_end :
    ∀ (now : Int) (ev : List Nat),
      ev ≠ [] →
        ∀ (start since : Option (List Nat)) (s e : Int),
          parseTimeRange now start (some ev) since = some (s, e) → ∀ (d : Int), parseTimestamp ev d = some e :=
  @explicit_end

/-- **C16 (default step)** = max(1 s, ⌊(end − start)/250 s⌋ s), at least one second -/
theorem C16_default_step :
    ∀ (start end_ : Int),
      defaultStep start end_ = max 1 ((↑(end_ - start) : Rat) / 1000000000 / 250).floor * 1000000000 ∧
        1000000000 ≤ defaultStep start end_ :=
  @default_step

/-- used exactly when --step is absent -/
theorem C16_default_step_absent :
    ∀ (start end_ : Int), parseStep none start end_ = some (defaultStep start end_) :=
  @default_step_absent

/-- **C16 (an accepted step is strictly positive)** (fails on the unrepaired parseStep, defect D12) -/
theorem C16_step_positive :
    ∀ (step : Option (List Nat)) (start end_ d : Int), parseStep step start end_ = some d → 0 < d :=
  @step_positive

/-- **C16 (malformed values are rejected)**: since -/
theorem C16_malformed_since_rejected :
    ∀ (now : Int) (start end_ : Option (List Nat)) (sv : List Nat),
      parsePromDuration sv = none → parseTimeRange now start end_ (some sv) = none :=
  @malformed_since_rejected

/-- …end -/
theorem C16_malformed_end_rejected :
    ∀ (now : Int) (start since : Option (List Nat)) (ev : List Nat),
      ev ≠ [] → (∀ (d : Int), parseTimestamp ev d = none) → parseTimeRange now start (some ev) since = none :=
  @malformed_end_rejected

/-- …start -/
theorem C16_malformed_start_rejected :
    ∀ (now : Int) (end_ since : Option (List Nat)) (sv : List Nat),
      (∀ (d : Int), parseTimestamp sv d = none) → parseTimeRange now (some sv) end_ since = none :=
  @malformed_start_rejected

/-- …step: `x`, `0`, `-1` -/
theorem C16_malformed_step_rejected :
    parseStep (some [120]) 0 0 = none ∧
      parseStep (some [48]) 0 0 = none ∧ parseStep (some [45, 49]) 0 0 = none :=
  @malformed_step_rejected

/-- **C16 (spellings)**: up to ten digits denote unix seconds -/
theorem C16_spelling_seconds :
    ∀ (n : Nat),
      n < 10000000000 → ∀ (d : Int), parseTimestamp (Bytes.natToDec n) d = some ((↑n : Int) * 1000000000) :=
  @spelling_seconds

/-- eleven or more digits denote unix nanoseconds -/
theorem C16_spelling_nanoseconds :
    ∀ (n : Nat),
      10000000000 ≤ n → n ≤ 9223372036854775807 → ∀ (d : Int), parseTimestamp (Bytes.natToDec n) d = some (↑n : Int) :=
  @spelling_nanoseconds

/-- so both spellings of a whole-second instant denote the same instant -/
theorem C16_seconds_and_nanoseconds_agree :
    ∀ (s : Nat),
      10 ≤ s →
        s < 9223372036 →
          ∀ (d1 d2 : Int), parseTimestamp (Bytes.natToDec s) d1 = parseTimestamp (Bytes.natToDec (s * 1000000000)) d2 :=
  @seconds_and_nanoseconds_agree

/-- `sec.mmm` denotes sec·10⁹ + mmm·10⁶ ns -/
theorem C16_spelling_fractional :
    ∀ (s ms : Nat),
      ms < 1000 →
        ∀ (d : Int),
          parseTimestamp (Bytes.natToDec s ++ [46] ++ pad3 ms) d = some ((↑s : Int) * 1000000000 + (↑ms : Int) * 1000000) :=
  @spelling_fractional

/-- **C16 (spellings)**: the RFC 3339 spelling of any instant of the years 1970–9999 denotes that instant,
to the nanosecond (hand-added; proved in Lemmas/C16Rfc.lean on top of the calendar proof) -/
theorem C16_spelling_rfc3339 (t : Nat) (ht : t < 253402300800000000000) (d : Int) :
    parseTimestamp (Render.rfc3339Nano t) d = some (t : Int) :=
  spelling_rfc3339 t ht d

/-- **C16 (the four spellings agree)**: unix seconds with milliseconds, unix nanoseconds and RFC 3339 of one
whole-millisecond instant denote the same instant -/
theorem C16_four_spellings_agree (s ms : Nat) (hs : 10 ≤ s) (hs2 : s < 9223372036) (hms : ms < 1000) (d1 d2 d3 : Int) :
    parseTimestamp (Render.rfc3339Nano (s * 1000000000 + ms * 1000000)) d1 =
      parseTimestamp (Bytes.natToDec s ++ [46] ++ pad3 ms) d2 ∧
    parseTimestamp (Bytes.natToDec (s * 1000000000 + ms * 1000000)) d3 =
      parseTimestamp (Bytes.natToDec s ++ [46] ++ pad3 ms) d2 :=
  four_spellings_agree s ms hs hs2 hms d1 d2 d3

end Flags.C16
