import Verif.Lemmas.C01
import Verif.Lemmas.C01Sem
/-! # C01 — Log queries return exactly the matching lines

Theorems over `LogQL.entries` / `LogQL.specEntries` (model of `Engine.selectLogs` +
`extractQueryConditions` + `entryIterator` + the pipeline, tied to the code by the C01
correspondence).  `Gen.classify` is REGENERATED from /repo on every run: the two `classify_*`
theorems are re-proved against what `extractQueryConditions` does now. -/
namespace LogQL.C01

/-- regenerated fact: only genuine line filters are handed to the storage -/
theorem C01_classify_lineFilter (s : Stage) (h : Gen.classify s = .lineFilter) :
    ∃ op v re, s = .lineFilter op v re := classify_lineFilter s h

/-- regenerated fact: every stage that does not stop line-filter offloading neither rewrites the
line nor carries state (fails to compile if e.g. `distinct` or `line_format` is classified `skip`) -/
theorem C01_classify_sound (s : Stage) (h : Gen.classify s ≠ .stop) : lineStateless s = true :=
  classify_not_stop_lineStateless s h

/-- **C01 (capability independence)**: the result is the same whichever selector matchers and
line filters the storage backend evaluates itself and whichever the engine evaluates — for every
capability configuration, query, record list, limit and environment. -/
theorem C01_entries_caps_indep (env : Env) (caps : Caps) (q : LogQuery) (recs : List Rec) (limit : Int) :
    entries env Gen.classify caps q recs limit = specEntries env q recs limit :=
  entries_caps_indep env caps q recs limit

/-- **C01 (nothing invented, nothing duplicated)**: the timestamps of the result form a sub-list of
the timestamps of the records: every result entry stems from a distinct record, in order, with
its original timestamp. -/
theorem C01_entries_ts_sublist (env : Env) (pre : List StrMatcher) (stages : List Stage) (limit : Int)
    (recs : List Rec) (seens : List Seen) (count : Nat) :
    ((iterate env pre stages limit recs seens count).map (·.ts)).Sublist (recs.map (·.ts)) :=
  entries_ts_sublist env pre stages limit recs seens count

/-- **C01 (original line)**: unless a formatting stage (line_format, unpack, decolorize) rewrote it,
every entry carries the original line of its record. -/
theorem C01_line_preserved (env : Env) (pre : List StrMatcher) (stages : List Stage)
    (hk : ∀ s ∈ stages, keepsLine s = true) (limit : Int) (recs : List Rec) (seens : List Seen) (count : Nat) :
    ((iterate env pre stages limit recs seens count).map (fun e => (e.ts, e.line))).Sublist
      (recs.map (fun r => (r.ts, r.body))) :=
  line_preserved env pre stages hk limit recs seens count

/-- **C01 (exactly the matching records)**: for pipelines without `distinct` and without a limit
the result is, record by record, the denotation of the query: every record that satisfies the
selector and survives the stages appears once, no other record does. -/
theorem C01_exact_stateless (env : Env) (sel : List StrMatcher) (stages : List Stage)
    (hs : ∀ s ∈ stages, isDistinct s = false) (limit : Int) (hl : limit ≤ 0) (recs : List Rec) :
    iterate env sel stages limit recs [] 0 = recs.filterMap (denote env sel stages) :=
  exact_stateless env sel stages hs limit hl recs

/-- a selector matcher on a missing label sees the empty string (LogQL semantics) -/
theorem C01_missing_label_is_empty (env : Env) (m : StrMatcher) (ls : Labels) (h : Labels.get? ls m.label = none) :
    m.sat env ls = m.matchValue env [] := by
  simp [StrMatcher.sat, h]

/-- `|=` is substring containment, `!=` its complement; `|~` regex search, `!~` its complement -/
theorem C01_lineFilter_semantics (env : Env) (ts : Int) (op : StrOp) (v : Bytes) (re : Regex.Re) (seen : Seen) (a : Acc) :
    (Stage.apply env ts (.lineFilter op v re) seen a).1 =
      (if (match op with
            | .eq => Bytes.contains a.line v | .ne => !Bytes.contains a.line v
            | .re => env.reSearch re a.line | .nre => !env.reSearch re a.line)
       then some a else none) := by
  cases op <;> simp [Stage.apply]

/-! ## What "matching" denotes (hand-added)

`Regex.Matches` / `Regex.Contains` (Verif/Env/RegexSem.lean) is the textbook language of a regular
expression: no backtracking, fuel, priorities or captures.  The executable matcher of `ExecEnv.env` —
the one the correspondence runs against Go's `regexp` — is proved to decide exactly that relation
(Lemmas/RegexSem.lean: soundness for any fuel, completeness under the fuel the model supplies), so
"the matching lines" of a `|~` filter are the lines containing a word of the language. -/

/-- the executable regex matcher decides language membership (anchored form, used by `=~`) -/
theorem C01_regex_fullMatch_is_language (r : Regex.Re) (s : List Nat) :
    Regex.fullMatch r s = true ↔ Regex.Matches r 0 s [] := RegexSem.fullMatch_iff r s

/-- …and containment of a match (unanchored form, used by `|~`) -/
theorem C01_regex_search_is_language (r : Regex.Re) (s : List Nat) :
    Regex.search r s = true ↔ Regex.Contains r s := RegexSem.search_iff r s

/-- **C01 (`|~`)**: the stage keeps exactly the lines that contain a match of the expression -/
theorem C01_lineFilter_re_keeps_language (ts : Int) (v : Bytes) (re : Regex.Re) (seen : Seen) (a : Acc) :
    (Stage.apply ExecEnv.env ts (.lineFilter .re v re) seen a).1 = some a ↔ Regex.Contains re a.line :=
  C01Sem.lineFilter_re ts v re seen a

/-- **C01 (`!~`)**: …and `!~` exactly the others -/
theorem C01_lineFilter_nre_keeps_complement (ts : Int) (v : Bytes) (re : Regex.Re) (seen : Seen) (a : Acc) :
    (Stage.apply ExecEnv.env ts (.lineFilter .nre v re) seen a).1 = some a ↔ ¬ Regex.Contains re a.line :=
  C01Sem.lineFilter_nre ts v re seen a

/-- **C01 (`|=`)**: kept iff the text occurs in the line (any environment) -/
theorem C01_lineFilter_eq_keeps_substring (env : Env) (ts : Int) (v : Bytes) (re : Regex.Re) (seen : Seen) (a : Acc) :
    (Stage.apply env ts (.lineFilter .eq v re) seen a).1 = some a ↔ ∃ pre post, a.line = pre ++ v ++ post :=
  C01Sem.lineFilter_eq env ts v re seen a

/-- **C01 (`!=`)** -/
theorem C01_lineFilter_ne_keeps_complement (env : Env) (ts : Int) (v : Bytes) (re : Regex.Re) (seen : Seen) (a : Acc) :
    (Stage.apply env ts (.lineFilter .ne v re) seen a).1 = some a ↔ ¬ ∃ pre post, a.line = pre ++ v ++ post :=
  C01Sem.lineFilter_ne env ts v re seen a

/-- **C01 (selector / label `=~`)**: anchored — the whole value is a word of the language -/
theorem C01_matcher_re_is_language (m : StrMatcher) (h : m.op = .re) (v : Bytes) :
    m.matchValue ExecEnv.env v = true ↔ Regex.Matches m.re 0 v [] := C01Sem.matcher_re m h v

theorem C01_matcher_nre_is_complement (m : StrMatcher) (h : m.op = .nre) (v : Bytes) :
    m.matchValue ExecEnv.env v = true ↔ ¬ Regex.Matches m.re 0 v [] := C01Sem.matcher_nre m h v

/-- non-vacuity: `(a|b)*c` matches "abac"; `^b` does not occur in "ab" -/
example : Regex.fullMatch (.seq (.star (.alt (.chr 97) (.chr 98))) (.chr 99)) [97, 98, 97, 99] = true := by decide
example : ¬ Regex.Contains (.seq .bol (.chr 98)) [97, 98] := by
  rw [← C01_regex_search_is_language]; decide


end LogQL.C01
