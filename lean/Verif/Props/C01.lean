import Verif.Lemmas.C01
/-! # C01 — Log queries return exactly the matching lines

Theorems over `LogQL.entries` / `LogQL.specEntries` (model of `Engine.selectLogs` +
`extractQueryConditions` + `entryIterator` + the pipeline, tied to the code by the C01
correspondence).  `Gen.classify` is REGENERATED from /repo on every run: the two `classify_*`
theorems are re-proved against what `extractQueryConditions` does now. -/
namespace LogQL.C01

/-- regenerated fact: only genuine line filters are handed to the storage -/
theorem C01_classify_lineFilter (s : Stage) (h : Gen.classify s = .lineFilter) :
    ∃ op v re, s = .lineFilter op v re := classify_lineFilter s h

/-- regenerated fact: every stage that does not stop line-filter offloading neither rewrites the
line nor carries state (fails to compile if e.g. `distinct` or `line_format` is classified `skip`) -/
theorem C01_classify_sound (s : Stage) (h : Gen.classify s ≠ .stop) : lineStateless s = true :=
  classify_not_stop_lineStateless s h

/-- **C01 (capability independence)**: the result is the same whichever selector matchers and
line filters the storage backend evaluates itself and whichever the engine evaluates — for every
capability configuration, query, record list, limit and environment. -/
theorem C01_entries_caps_indep (env : Env) (caps : Caps) (q : LogQuery) (recs : List Rec) (limit : Int) :
    entries env Gen.classify caps q recs limit = specEntries env q recs limit :=
  entries_caps_indep env caps q recs limit

/-- **C01 (nothing invented, nothing duplicated)**: the timestamps of the result form a sub-list of
the timestamps of the records: every result entry stems from a distinct record, in order, with
its original timestamp. -/
theorem C01_entries_ts_sublist (env : Env) (pre : List StrMatcher) (stages : List Stage) (limit : Int)
    (recs : List Rec) (seens : List Seen) (count : Nat) :
    ((iterate env pre stages limit recs seens count).map (·.ts)).Sublist (recs.map (·.ts)) :=
  entries_ts_sublist env pre stages limit recs seens count

/-- **C01 (original line)**: unless a formatting stage (line_format, unpack, decolorize) rewrote it,
every entry carries the original line of its record. -/
theorem C01_line_preserved (env : Env) (pre : List StrMatcher) (stages : List Stage)
    (hk : ∀ s ∈ stages, keepsLine s = true) (limit : Int) (recs : List Rec) (seens : List Seen) (count : Nat) :
    ((iterate env pre stages limit recs seens count).map (fun e => (e.ts, e.line))).Sublist
      (recs.map (fun r => (r.ts, r.body))) :=
  line_preserved env pre stages hk limit recs seens count

/-- **C01 (exactly the matching records)**: for pipelines without `distinct` and without a limit
the result is, record by record, the denotation of the query: every record that satisfies the
selector and survives the stages appears once, no other record does. -/
theorem C01_exact_stateless (env : Env) (sel : List StrMatcher) (stages : List Stage)
    (hs : ∀ s ∈ stages, isDistinct s = false) (limit : Int) (hl : limit ≤ 0) (recs : List Rec) :
    iterate env sel stages limit recs [] 0 = recs.filterMap (denote env sel stages) :=
  exact_stateless env sel stages hs limit hl recs

/-- a selector matcher on a missing label sees the empty string (LogQL semantics) -/
theorem C01_missing_label_is_empty (env : Env) (m : StrMatcher) (ls : Labels) (h : Labels.get? ls m.label = none) :
    m.sat env ls = m.matchValue env [] := by
  simp [StrMatcher.sat, h]

/-- `|=` is substring containment, `!=` its complement; `|~` regex search, `!~` its complement -/
theorem C01_lineFilter_semantics (env : Env) (ts : Int) (op : StrOp) (v : Bytes) (re : Regex.Re) (seen : Seen) (a : Acc) :
    (Stage.apply env ts (.lineFilter op v re) seen a).1 =
      (if (match op with
            | .eq => Bytes.contains a.line v | .ne => !Bytes.contains a.line v
            | .re => env.reSearch re a.line | .nre => !env.reSearch re a.line)
       then some a else none) := by
  cases op <;> simp [Stage.apply]

end LogQL.C01
