import Verif.Lemmas.KeyToLabel
import Verif.Props.C02
/-! # C20 — Every Docker label is addressable under a valid LogQL name

Property theorems over the byte-level model `KeyToLabel.run` of `otelstorage.KeyToLabel`
and the model `KeyToLabel.isValidLabel` of `logql.IsValidLabel` (both tied to the Go code by the
C20 correspondence check).  The selectability half (`{sanitised(k)="v"}` selects the container)
is `Docker.selectable_partial` in `Props/C02.lean`-land and re-exported at the end of this file once
the Docker model is imported. -/
namespace KeyToLabel
open Utf8

/-- `run` is the declarative sanitisation: optional leading `_`, then each rune replaced by
itself if it is `[A-Za-z0-9_]` and by `_` otherwise. -/
theorem C20_run_eq_spec (k : List Nat) : run k = spec k := run_eq_spec k

/-- a rune is changed iff it is an offending one -/
theorem C20_repl_changes_iff (r : Nat) : repl r = r ↔ isIdent r = true := by
  unfold repl
  constructor
  · intro h
    split at h
    · assumption
    · subst h; decide
  · intro h; simp [h]

theorem spec_all_ident (k : List Nat) : ∀ x ∈ spec k, isIdent x = true := by
  intro x hx
  unfold spec at hx
  rcases List.mem_append.mp hx with h | h
  · cases k with
    | nil => simp at h
    | cons b rest =>
      simp only at h
      split at h
      · simp at h; subst h; decide
      · simp at h
  · simp only [List.mem_map] at h
    obtain ⟨a, _, rfl⟩ := h
    exact repl_ident a

theorem all_ident_ascii {l : List Nat} (h : ∀ x ∈ l, isIdent x = true) : ∀ x ∈ l, x < 0x80 :=
  fun x hx => ident_lt (h x hx)

theorem start_of_ident_nondigit {r : Nat} (h : isIdent r = true) (hd : isDigit r = false) :
    isIdentStart r = true := by
  simp only [isIdent, isIdentStart, Bool.or_eq_true] at *
  rcases h with (h | h) | h
  · exact Or.inl h
  · simp [h] at hd
  · exact Or.inr h

theorem digit_not_start {r : Nat} (h : isDigit r = true) : isIdentStart r = false := by
  simp only [isDigit, Bool.and_eq_true, decide_eq_true_eq] at h
  have h1 : (r == 95) = false := by simp; omega
  have h2 : isAlpha r = false := by
    simp only [isAlpha, Bool.or_eq_false_iff, Bool.and_eq_false_iff, decide_eq_false_iff_not]
    omega
  simp [isIdentStart, h1, h2]

theorem isValidLabel_of (c : Nat) (tl : List Nat) (hall : ∀ x ∈ c :: tl, isIdent x = true)
    (hstart : isIdentStart c = true) : isValidLabel false (c :: tl) = true := by
  have hrun : runes (c :: tl) = c :: tl := runes_ascii _ (all_ident_ascii hall)
  simp only [isValidLabel, hrun, hstart, Bool.true_and, List.all_eq_true, Bool.or_eq_true]
  exact fun x hx => Or.inl (hall x hx)

theorem spec_cons_head (b : Nat) (rest : List Nat) :
    ∃ c tl, spec (b :: rest) = c :: tl ∧ isIdentStart c = true := by
  unfold spec
  by_cases hd : isDigit b = true
  · exact ⟨95, (runes (b :: rest)).map repl, by simp [hd], by decide⟩
  · have hr : runes (b :: rest) = (decodeRune (b :: rest)).1 :: runes (rest.drop ((decodeRune (b :: rest)).2 - 1)) := by
      rw [runes]
    refine ⟨repl (decodeRune (b :: rest)).1,
      (runes (rest.drop ((decodeRune (b :: rest)).2 - 1))).map repl, by simp [hd, hr], ?_⟩
    have hrd : isDigit (repl (decodeRune (b :: rest)).1) = false := by
      unfold repl
      split
      · rw [first_digit_iff]; simpa using hd
      · decide
    exact start_of_ident_nondigit (repl_ident _) hrd

/-- **C20 (validity)**: every non-empty key is mapped to a valid LogQL label name. -/
theorem C20_valid (k : List Nat) (hk : k ≠ []) : isValidLabel false (run k) = true := by
  rw [run_eq_spec]
  cases k with
  | nil => exact absurd rfl hk
  | cons b rest =>
    obtain ⟨c, tl, hs, hstart⟩ := spec_cons_head b rest
    have hall := spec_all_ident (b :: rest)
    rw [hs] at hall ⊢
    exact isValidLabel_of c tl hall hstart

/-- **C20 (identity on valid names)**: names that are already valid are unchanged. -/
theorem C20_id_on_valid (k : List Nat) (h : isValidLabel false k = true) : run k = k := by
  rw [run_eq_spec]
  cases k with
  | nil => simp [isValidLabel] at h
  | cons b rest =>
    simp only [isValidLabel, Bool.and_eq_true, List.all_eq_true] at h
    obtain ⟨hs, hr'⟩ := h
    have hr : ∀ r ∈ runes (b :: rest), isIdent r = true := fun r hm => by simpa using hr' r hm
    have hnd : isDigit b = false := by
      cases hd : isDigit b with
      | false => rfl
      | true => rw [digit_not_start hd] at hs; exact absurd hs (by decide)
    -- every byte is an identifier byte, by induction along `runes`
    have key : ∀ (l : List Nat), (∀ r ∈ runes l, isIdent r = true) → (runes l).map repl = l := by
      intro l
      induction l with
      | nil => intro _; simp [runes]
      | cons c tl ih =>
        intro hl
        have hc : isIdent (decodeRune (c :: tl)).1 = true := by
          apply hl; rw [runes]; simp
        have hcons := runes_cons_ident hc
        rw [hcons] at hl ⊢
        have hci : isIdent c = true := hl c (by simp)
        simp only [List.map_cons, repl_id hci]
        rw [ih (fun r hr => hl r (by simp [hr]))]
    unfold spec
    simp only [hnd, Bool.false_eq_true, ↓reduceIte, List.nil_append]
    exact key _ hr

/-- **C20 (idempotence)** -/
theorem C20_idempotent (k : List Nat) : run (run k) = run k := by
  cases k with
  | nil => simp [run, fast]
  | cons b rest => exact C20_id_on_valid _ (C20_valid (b :: rest) (by simp))

/-- **C20 (pointwise)**: a key that does not start with a digit is mapped rune by rune — one output
byte per input rune. -/
theorem C20_pointwise (b : Nat) (rest : List Nat) (h : isDigit b = false) :
    run (b :: rest) = (runes (b :: rest)).map repl := by
  rw [run_eq_spec]; simp [spec, h]

/-- the empty key is mapped to the empty (invalid) name: stated explicitly, the property's
"every key" excludes it -/
theorem C20_empty : run [] = [] ∧ isValidLabel false [] = false := by
  simp [run, fast, isValidLabel]

/-- **C20 (selectability, partial)**: a container carrying Docker label `k=v` is selected by
`{sanitised(k)="v"}` — *provided* no Docker label of the same container that the runtime iterates
later sanitises to the same name.  The hypothesis is forced by the code: at the excluded point
(`{"a.b":"1","a-b":"2"}`) the map iteration order decides which value survives (known finding K3). -/
theorem C20_selectable_partial (full : Regex.Re → List Nat → Bool) (inv : List Docker.Container)
    (c : Docker.Container) (hc : c ∈ inv) (pre post : List (List Nat × List Nat)) (k v : List Nat)
    (hl : c.labels = pre ++ (k, v) :: post)
    (hpost : ∀ kv ∈ post, run kv.1 ≠ run k) :
    c ∈ Docker.select full inv [⟨run k, .eq, v, .eps⟩] := by
  rw [Docker.C02_select_iff]
  refine ⟨hc, ?_⟩
  intro m hm
  simp only [List.mem_singleton] at hm
  subst hm
  simp [Docker.evalOp, Docker.getLabels_docker_label c pre post k v hl hpost]

/-- the excluded point is real: with two colliding keys the later one hides the earlier -/
theorem C20_collision_witness :
    (Docker.getLabels ⟨[], [], [], [], [], [], [], [], [([97, 46, 98], [49]), ([97, 45, 98], [50])]⟩).lookup (run [97, 46, 98])
      = some [50] := by
  have h1 : run [97, 46, 98] = [97, 95, 98] := by
    rw [run_eq_spec]; simp [spec, runes, decodeRune, repl, isIdent, isDigit, isAlpha]
  have h2 : run [97, 45, 98] = [97, 95, 98] := by
    rw [run_eq_spec]; simp [spec, runes, decodeRune, repl, isIdent, isDigit, isAlpha]
  simp [Docker.getLabels, h1, h2]

private theorem map_repl_filter (l : List Nat) :
    (l.map repl).filter (· != 95) = l.filter (fun r => isIdent r && r != 95) := by
  induction l with
  | nil => rfl
  | cons r l ih =>
    by_cases h : isIdent r = true
    · simp [repl, h, ih, List.filter_cons]
    · simp [repl, h, ih]

/-- **C20 (length)**: one output byte per input rune, plus the leading `_` of a digit-initial key -/
theorem C20_length (b : Nat) (rest : List Nat) :
    (run (b :: rest)).length = (runes (b :: rest)).length + (if isDigit b then 1 else 0) := by
  rw [run_eq_spec]; simp only [spec]; split <;> simp <;> omega

/-- **C20 (nothing but `_` is invented, nothing else is lost)**: apart from underscores, the
sanitised name consists of exactly the identifier characters of the key, in their order -/
theorem C20_identifier_characters_kept (k : List Nat) :
    (run k).filter (· != 95) = (runes k).filter (fun r => isIdent r && r != 95) := by
  rw [run_eq_spec]
  cases k with
  | nil => simp [spec, runes]
  | cons b rest =>
    simp only [spec, List.filter_append, map_repl_filter]
    split <;> simp

-- non-vacuity: concrete instances of the hypotheses
example : run [49, 97, 46, 98] = [95, 49, 97, 95, 98] := by   -- "1a.b" ↦ "_1a_b"
  rw [run_eq_spec]; simp [spec, runes, decodeRune, repl, isIdent, isDigit, isAlpha]
example : isValidLabel false [97, 95, 49] = true := by simp [isValidLabel, runes, decodeRune, isIdentStart, isAlpha, isIdent, isDigit]
example : ([46] : List Nat) ≠ [] := by simp

end KeyToLabel
