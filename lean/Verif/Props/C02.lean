import Verif.Model.Docker
import Verif.Lemmas.RegexSem
/-! # C02 — Selectors pick exactly the matching containers; lines keep their origin

Theorems over the model `Docker.select` / `getLabels` / `logsWindow` (tied to
`dockerlog.Querier` + `Engine.Eval` by the C02 correspondence).  The anchored regex matcher
`full` is a parameter: the statements hold for every matcher, in particular Go's
`regexp.MustCompile("^(?:" + re + ")$").MatchString`. -/
namespace Docker

variable (full : Regex.Re → Bytes → Bool)

/-- **C02 (selection)**: a container is selected iff it is in the inventory and every matcher
holds of its label value, a label the container does not have behaving as the empty string. -/
theorem C02_select_iff (inv : List Container) (ms : List Matcher) (c : Container) :
    c ∈ select full inv ms ↔
      c ∈ inv ∧ ∀ m ∈ ms, evalOp full m (((getLabels c).lookup m.label).getD []) = true := by
  simp [select, matchesAll, valueOf, List.mem_filter, List.all_eq_true]

/-- selection keeps inventory order and multiplicity: it is a filter of the inventory -/
theorem C02_select_sublist (inv : List Container) (ms : List Matcher) :
    (select full inv ms).Sublist inv := by
  unfold select; exact List.filter_sublist

/-- **C02 (`=` is exact equality, `!=` its complement)** -/
theorem C02_eq_exact (l v : Bytes) (re : Regex.Re) (s : Bytes) :
    evalOp full ⟨l, .eq, v, re⟩ s = true ↔ s = v := by
  simp [evalOp]

theorem C02_ne_exact (l v : Bytes) (re : Regex.Re) (s : Bytes) :
    evalOp full ⟨l, .ne, v, re⟩ s = true ↔ s ≠ v := by
  simp [evalOp]

/-- **C02 (`=~` is the fully anchored match, `!~` its complement)** -/
theorem C02_re_full (l v : Bytes) (re : Regex.Re) (s : Bytes) :
    evalOp full ⟨l, .re, v, re⟩ s = full re s ∧ evalOp full ⟨l, .nre, v, re⟩ s = !full re s := by
  simp [evalOp]

/-- **C02 (complementary selectors split the inventory)**: `{l="v"}` and `{l!="v"}` (likewise
`=~`/`!~`) select two disjoint sub-lists whose lengths add up to the inventory. -/
theorem C02_complement_partition (inv : List Container) (l v : Bytes) (re : Regex.Re) :
    (∀ c, c ∈ select full inv [⟨l, .eq, v, re⟩] → c ∉ select full inv [⟨l, .ne, v, re⟩]) ∧
    (select full inv [⟨l, .eq, v, re⟩]).length + (select full inv [⟨l, .ne, v, re⟩]).length = inv.length ∧
    (∀ c, c ∈ select full inv [⟨l, .re, v, re⟩] → c ∉ select full inv [⟨l, .nre, v, re⟩]) ∧
    (select full inv [⟨l, .re, v, re⟩]).length + (select full inv [⟨l, .nre, v, re⟩]).length = inv.length := by
  refine ⟨?_, ?_, ?_, ?_⟩
  · intro c h1 h2
    simp [select, matchesAll, evalOp, List.mem_filter] at h1 h2
    exact h2.2 h1.2
  · induction inv with
    | nil => rfl
    | cons a t ih =>
      simp only [select, matchesAll, evalOp, List.all_cons, List.all_nil, Bool.and_true, List.filter_cons] at ih ⊢
      by_cases h : valueOf (getLabels a) l = v
      · simp [h]; omega
      · simp [h]; omega
  · intro c h1 h2
    simp [select, matchesAll, evalOp, List.mem_filter] at h1 h2
    rw [h1.2] at h2; exact absurd h2.2 (by simp)
  · induction inv with
    | nil => rfl
    | cons a t ih =>
      simp only [select, matchesAll, evalOp, List.all_cons, List.all_nil, Bool.and_true, List.filter_cons] at ih ⊢
      cases h : full re (valueOf (getLabels a) l)
      · simp; omega
      · simp; omega

/-- **C02 (missing label)**: a matcher on a label the container does not have is evaluated
against the empty string. -/
theorem C02_missing_label_is_empty (ls : Labels) (m : Matcher) (h : ls.lookup m.label = none) :
    matchesAll full [m] ls = evalOp full m [] := by
  simp [matchesAll, valueOf, h]

/-- the built-in labels are present with the container's own values (unless a Docker label
sanitises to the same name, which then wins) -/
theorem C02_builtin_labels (c : Container) (h : c.labels = []) :
    getLabels c = builtins c := by
  simp [getLabels, h]

theorem lookup_foldl_cons (kvs : List (Bytes × Bytes)) (acc : Labels) (k : Bytes)
    (hk : ∀ kv ∈ kvs, KeyToLabel.run kv.1 ≠ k) :
    (kvs.foldl (fun acc kv => (KeyToLabel.run kv.1, kv.2) :: acc) acc).lookup k = acc.lookup k := by
  induction kvs generalizing acc with
  | nil => rfl
  | cons kv rest ih =>
    simp only [List.foldl_cons]
    rw [ih _ (fun x hx => hk x (by simp [hx]))]
    have : (k == KeyToLabel.run kv.1) = false := by
      have := hk kv (by simp)
      simp only [beq_eq_false_iff_ne, ne_eq]
      exact fun h => this h.symm
    simp [List.lookup, this]

/-- a Docker label `k=v` is visible under its sanitised name, provided no later-iterated
Docker label of the same container sanitises to the same name -/
theorem getLabels_docker_label (c : Container) (pre post : List (Bytes × Bytes)) (k v : Bytes)
    (hl : c.labels = pre ++ (k, v) :: post)
    (hpost : ∀ kv ∈ post, KeyToLabel.run kv.1 ≠ KeyToLabel.run k) :
    (getLabels c).lookup (KeyToLabel.run k) = some v := by
  unfold getLabels
  rw [hl, List.foldl_append, List.foldl_cons, lookup_foldl_cons post _ _ hpost]
  simp [List.lookup]

/-- **C02 (window)**: the daemon is asked for the window's bounds truncated to whole seconds:
never later than the requested start, less than one second earlier; same for the end. -/
theorem C02_window_floor (start end_ : Int) :
    let w := logsWindow false start end_
    w.since * 1000000000 ≤ start ∧ start < (w.since + 1) * 1000000000 ∧
    w.until_ * 1000000000 ≤ end_ ∧ end_ < (w.until_ + 1) * 1000000000 := by
  simp only [logsWindow, windowStart, unixSeconds, Bool.false_eq_true, ↓reduceIte]
  refine ⟨?_, ?_, ?_, ?_⟩ <;> omega

/-- instant queries look back 30 s from the evaluation time (engine default) -/
theorem C02_window_instant (t : Int) :
    (logsWindow true t t).since = (t - 30000000000) / 1000000000 ∧ (logsWindow true t t).until_ = t / 1000000000 := by
  simp [logsWindow, windowStart, unixSeconds]

-- non-vacuity: `{container="web"}` selects the container named `/web`
example : (⟨[105], [[47, 119, 101, 98]], [], [], [], [], [], [], []⟩ : Container) ∈
    select (fun _ _ => true) [⟨[105], [[47, 119, 101, 98]], [], [], [], [], [], [], []⟩]
      [⟨str "container", .eq, [119, 101, 98], .eps⟩] := by
  rw [C02_select_iff]
  refine ⟨List.mem_singleton.mpr rfl, ?_⟩
  intro m hm
  simp only [List.mem_singleton] at hm
  subst hm
  simp [evalOp, getLabels, builtins, name]

/-- **C02 (`=~` denotes the language)**: for the executable matcher the correspondence runs
(`Regex.fullMatch`, proved to decide the textbook matching relation), `{l=~"re"}` holds of a value iff the
WHOLE value is a word of the language of `re`, and `!~` iff it is not -/
theorem C02_re_is_language (l v : Bytes) (re : Regex.Re) (s : Bytes) :
    (evalOp Regex.fullMatch ⟨l, .re, v, re⟩ s = true ↔ Regex.Matches re 0 s []) ∧
    (evalOp Regex.fullMatch ⟨l, .nre, v, re⟩ s = true ↔ ¬ Regex.Matches re 0 s []) := by
  constructor
  · rw [← RegexSem.fullMatch_iff]; simp [evalOp]
  · rw [← RegexSem.fullMatch_iff]; simp [evalOp]


end Docker
