import Verif.Lemmas.C12
/-! # C12 — Binary operations combine matching series pointwise

Theorems over `Metric.sampleOp` / `litStep` / `binStep` / `zipSteps` (models of `buildSampleBinOp`, `literalBinOpIterator`, `binOpIterator`, `mergeBinOpIterator`; tied to the code by the C12 correspondence).  Values are exact rationals / NaN (`Val`); IEEE rounding is outside the model.  As coded, a comparison that does not hold keeps the series with value 0 and drops it under the `bool` modifier. -/
namespace Metric.C12
open LogQL Metric

/-- **C12 (vector op scalar)**: one output series per input series, operator applied to (value, scalar) -/
theorem C12_literal_right :
    ∀ (op : BinOp),
      op.isSet = false →
        ∀ (boolMod : Bool) (c : Rat) (s : Step),
          litStep op boolMod c false s =
            { t := s.t,
              samples :=
                List.filterMap
                  (fun (x : Sample) =>
                    Option.map (fun (v : Val) => { set := x.set, v := v }) (sampleOp op boolMod x.v (Val.q c)))
                  s.samples } :=
  @literal_right

/-- **C12 (scalar op vector)**: operator applied to (scalar, value) — on the side it was written -/
theorem C12_literal_left :
    ∀ (op : BinOp),
      op.isSet = false →
        ∀ (boolMod : Bool) (c : Rat) (s : Step),
          litStep op boolMod c true s =
            { t := s.t,
              samples :=
                List.filterMap
                  (fun (x : Sample) =>
                    Option.map (fun (v : Val) => { set := x.set, v := v }) (sampleOp op boolMod (Val.q c) x.v))
                  s.samples } :=
  @literal_left

/-- the side matters: x − c versus c − x -/
theorem C12_literal_side_sub :
    ∀ (b : Bool) (x c : Rat),
      sampleOp BinOp.sub b (Val.q x) (Val.q c) = some (Val.q (x - c)) ∧
        sampleOp BinOp.sub b (Val.q c) (Val.q x) = some (Val.q (c - x)) :=
  @literal_side_sub

/-- arithmetic with a scalar yields exactly one series per input series, labels intact -/
theorem C12_arith_keeps_all :
    ∀ (op : BinOp),
      isArith op = true →
        ∀ (boolMod : Bool) (c : Rat) (left : Bool) (s : Step),
          List.map (fun (x : Sample) => x.set) (litStep op boolMod c left s).samples =
            List.map (fun (x : Sample) => x.set) s.samples :=
  @arith_keeps_all

/-- +, −, × on rationals are exact -/
theorem C12_arith_values :
    ∀ (b : Bool) (x y : Rat),
      sampleOp BinOp.add b (Val.q x) (Val.q y) = some (Val.q (x + y)) ∧
        sampleOp BinOp.sub b (Val.q x) (Val.q y) = some (Val.q (x - y)) ∧
          sampleOp BinOp.mul b (Val.q x) (Val.q y) = some (Val.q (x * y)) :=
  @arith_values

/-- x / y for y ≠ 0 -/
theorem C12_div_nonzero :
    ∀ (b : Bool) (x y : Rat), y ≠ 0 → sampleOp BinOp.div b (Val.q x) (Val.q y) = some (Val.q (x / y)) :=
  @div_nonzero

/-- **C12 (x / 0 = NaN)** -/
theorem C12_div_zero_nan :
    ∀ (b : Bool) (x : Rat), sampleOp BinOp.div b (Val.q x) (Val.q 0) = some Val.nan :=
  @div_zero_nan

/-- **C12 (x % 0 = NaN)** -/
theorem C12_mod_zero_nan :
    ∀ (b : Bool) (x : Rat), sampleOp BinOp.mod b (Val.q x) (Val.q 0) = some Val.nan :=
  @mod_zero_nan

/-- **C12 (comparison gives 1 exactly where it holds)**, all six operators -/
theorem C12_cmp_one_iff_holds :
    ∀ (b : Bool) (x y : Rat),
      (sampleOp BinOp.eq b (Val.q x) (Val.q y) = some (Val.q 1) ↔ x = y) ∧
        (sampleOp BinOp.ne b (Val.q x) (Val.q y) = some (Val.q 1) ↔ x ≠ y) ∧
          (sampleOp BinOp.gt b (Val.q x) (Val.q y) = some (Val.q 1) ↔ y < x) ∧
            (sampleOp BinOp.ge b (Val.q x) (Val.q y) = some (Val.q 1) ↔ y ≤ x) ∧
              (sampleOp BinOp.lt b (Val.q x) (Val.q y) = some (Val.q 1) ↔ x < y) ∧
                (sampleOp BinOp.le b (Val.q x) (Val.q y) = some (Val.q 1) ↔ x ≤ y) :=
  @cmp_one_iff_holds

/-- where it does not hold: 0, or dropped under `bool` (as coded) -/
theorem C12_cmp_not_holds :
    ∀ (b : Bool) (x y : Rat),
      (¬x = y → sampleOp BinOp.eq b (Val.q x) (Val.q y) = if b = true then none else some (Val.q 0)) ∧
        (¬x ≠ y → sampleOp BinOp.ne b (Val.q x) (Val.q y) = if b = true then none else some (Val.q 0)) ∧
          (¬y < x → sampleOp BinOp.gt b (Val.q x) (Val.q y) = if b = true then none else some (Val.q 0)) ∧
            (¬y ≤ x → sampleOp BinOp.ge b (Val.q x) (Val.q y) = if b = true then none else some (Val.q 0)) ∧
              (¬x < y → sampleOp BinOp.lt b (Val.q x) (Val.q y) = if b = true then none else some (Val.q 0)) ∧
                (¬x ≤ y → sampleOp BinOp.le b (Val.q x) (Val.q y) = if b = true then none else some (Val.q 0)) :=
  @cmp_not_holds

/-- **C12 (vector op vector)**: one output per right-hand series whose label set occurs on the left, carrying the left labels and op(left, right) -/
theorem C12_vector_join :
    ∀ (op : BinOp),
      op.isSet = false →
        ∀ (boolMod : Bool) (l r : Step),
          binStep op boolMod l r =
            { t := l.t,
              samples :=
                List.filterMap
                  (fun (rs : Sample) =>
                    match (List.filter (fun (x : Sample) => sameSet x.set rs.set) l.samples).getLast? with
                    | none => none
                    | some ls => Option.map (fun (v : Val) => { set := ls.set, v := v }) (sampleOp op boolMod ls.v rs.v))
                  r.samples } :=
  @vector_join

/-- output label sets lie in the intersection of both sides -/
theorem C12_vector_join_sets :
    ∀ (op : BinOp),
      isArith op = true →
        ∀ (boolMod : Bool) (l r : Step) (x : Sample),
          x ∈ (binStep op boolMod l r).samples →
            (∃ (ls : Sample), ls ∈ l.samples ∧ x.set = ls.set) ∧
              ∃ (rs : Sample), rs ∈ r.samples ∧ sameSet x.set rs.set = true :=
  @vector_join_sets

/-- **C12 (and = intersection by label set)** -/
theorem C12_and_is_inter :
    ∀ (b : Bool) (l r : Step) (x : Sample),
      x ∈ (binStep BinOp.and b l r).samples ↔ x ∈ l.samples ∧ ∃ (y : Sample), y ∈ r.samples ∧ sameSet y.set x.set = true :=
  @and_is_inter

/-- **C12 (or = union, left side wins)** -/
theorem C12_or_is_union_left_wins :
    ∀ (b : Bool) (l r : Step) (x : Sample),
      x ∈ (binStep BinOp.or b l r).samples ↔
        x ∈ l.samples ∨ x ∈ r.samples ∧ ¬∃ (y : Sample), y ∈ l.samples ∧ sameSet y.set x.set = true :=
  @or_is_union_left_wins

/-- **C12 (unless = difference)** -/
theorem C12_unless_is_diff :
    ∀ (b : Bool) (l r : Step) (x : Sample),
      x ∈ (binStep BinOp.unless b l r).samples ↔ x ∈ l.samples ∧ ¬∃ (y : Sample), y ∈ r.samples ∧ sameSet y.set x.set = true :=
  @unless_is_diff

/-- the output step carries the left step's time -/
theorem C12_set_ops_timestamp :
    ∀ (op : BinOp) (b : Bool) (l r : Step), (binStep op b l r).t = l.t :=
  @set_ops_timestamp

/-- **C12 (every step)**: the k-th output combines the k-th steps of both sides -/
theorem C12_steps_aligned :
    ∀ (f : Step → Step → Step) (ls rs : List Step),
      zipSteps f ls rs = List.map (fun (p : Step × Step) => f p.fst p.snd) (ls.zip rs) :=
  @steps_aligned

/-- as many output steps as the shorter side -/
theorem C12_steps_aligned_length :
    ∀ (f : Step → Step → Step) (ls rs : List Step),
      (zipSteps f ls rs).length = min ls.length rs.length :=
  @steps_aligned_length


end Metric.C12
