import Verif.Lemmas.C05Sound
import Verif.Model.Lexer
import Verif.Lemmas.C05Stages
import Verif.Lemmas.C05Expr
import Verif.Lemmas.C05Layout
import Verif.Gen.Tokens
import Verif.Gen.Static
import Verif.Gen.Prec
/-! # C05 — Query text is parsed into the structure it denotes

`Parser.parse` is the production-by-production model of `logql.Parse` over tokens; the C05
correspondence ties it (and the lexer) to the code on grammar-derived queries in all layouts and on
their corruptions.  This file holds the property theorems that are decided by finite tables: the
regenerated token table and static-rule tables (`Gen.tokenOf`, `Gen.validRange`, `Gen.validVec`,
obtained by calling the lexer / parser on every entry, on every run) agree with the grammar written
here by hand, and the named static rules hold of the model for every parameter, grouping and unwrap
expression.  The parse-level theorems (accepted ⇒ statically well-formed; canonical writing ⇒ parsed
back) follow in the second half of the file. -/
namespace C05
open Syntax

/-- the LogQL grammar's fixed spellings: the table of the lexer model (`Lexer.kwTable`, written by hand
from the language reference) -/
def expected : List (String × K) := Lexer.kwTable

/-- names that are functions only in front of `(` / `by` / `without` and identifiers elsewhere: the
function class of the lexer model -/
def expectedFunctions : List String := (Lexer.kwTable.filter (fun p => Lexer.isFunctionK p.2)).map (·.1)

/-- **C05 (token table)**: the lexer maps every fixed spelling of the grammar to its own token —
`>=` is `gte` and never `gt`, `5m`-style units aside (those are in the correspondence). -/
theorem C05_token_table :
    Gen.spellings.map (fun s => (s, Gen.tokenOf s)) = expected.map (fun p => (p.1, some p.2)) := by
  decide +kernel

theorem C05_function_names : Gen.identAlone = expectedFunctions := by decide +kernel

/-- distinct spellings denote distinct tokens -/
theorem C05_tokens_injective : (expected.map (·.2)).Nodup := by decide +kernel

/-- **C05 (operators)**: every binary operator spelling reaches the operator it denotes. -/
theorem C05_binop_spellings :
    ["or", "and", "unless", "+", "-", "*", "/", "%", "^", "==", "!=", ">", ">=", "<", "<="].map
      (fun s => (Gen.tokenOf s).bind binOpOf)
    = [some .or, some .and, some .unless, some .add, some .sub, some .mul, some .div, some .mod, some .pow,
       some .eq, some .ne, some .gt, some .ge, some .lt, some .le] := by decide +kernel

theorem C05_cmp_spellings :
    ["==", "!=", ">", ">=", "<", "<="].map (fun s => (Gen.tokenOf s).bind Parser.cmpOpOf)
    = [some .eq, some .ne, some .gt, some .ge, some .lt, some .le] := by decide +kernel

theorem C05_matcher_spellings :
    ["=", "!=", "=~", "!~"].map (fun s => (Gen.tokenOf s).bind Parser.strOpOf)
    = [some .eq, some .ne, some .re, some .nre] := by decide +kernel

theorem C05_range_spellings :
    ["count_over_time", "rate", "rate_counter", "bytes_over_time", "bytes_rate", "avg_over_time", "sum_over_time", "min_over_time",
     "max_over_time", "stdvar_over_time", "stddev_over_time", "quantile_over_time", "first_over_time", "last_over_time",
     "absent_over_time"].map (fun s => (Gen.tokenOf s).bind rangeOpOf)
    = [some .count, some .rate, some .rateCounter, some .bytes, some .bytesRate, some .avg, some .sum, some .min, some .max,
       some .stdvar, some .stddev, some .quantile, some .first, some .last, some .absent] := by decide +kernel

theorem C05_vector_spellings :
    ["sum", "avg", "count", "max", "min", "stddev", "stdvar", "bottomk", "topk", "sort", "sort_desc"].map
      (fun s => (Gen.tokenOf s).bind vecOpOf)
    = [some .sum, some .avg, some .count, some .max, some .min, some .stddev, some .stdvar, some .bottomk, some .topk,
       some .sort, some .sortDesc] := by decide +kernel

/-! ## static rules -/

private def someIf {α} (b : Bool) (a : α) : Option α := if b then some a else none

/-- **C05 (static rules, regenerated)**: for every range operation and every combination of
parameter / grouping / unwrap, the parser accepts exactly when the model's `validRange` does. -/
theorem C05_static_range (op : Metric.RangeOp) (p g u : Bool) :
    Gen.validRange op p g u =
      Parser.validRange op (someIf p (1/2)) (someIf g ⟨false, [[97]]⟩) (someIf u ⟨[], [118], []⟩) := by
  cases op <;> cases p <;> cases g <;> cases u <;> rfl

/-- the model's rule does not depend on *which* parameter, grouping or unwrap is given -/
theorem validRange_shape (op : Metric.RangeOp) (p : Option Rat) (g : Option Grouping) (u : Option Unwrap) :
    Parser.validRange op p g u =
      Parser.validRange op (someIf p.isSome (1/2)) (someIf g.isSome ⟨false, [[97]]⟩) (someIf u.isSome ⟨[], [118], []⟩) := by
  cases p <;> cases g <;> cases u <;> cases op <;> rfl

/-- **C05 (static rules, all instances)**: whatever the parameter value, grouping labels and unwrap
expression are, acceptance by the model is the regenerated table at the corresponding shape. -/
theorem C05_static_range_all (op : Metric.RangeOp) (p : Option Rat) (g : Option Grouping) (u : Option Unwrap) :
    Parser.validRange op p g u = Gen.validRange op p.isSome g.isSome u.isSome := by
  rw [validRange_shape, C05_static_range]

theorem C05_static_vec (op : Metric.VecOp) (g : Bool) :
    Gen.validVec op 0 g = Parser.validVec op none (someIf g ⟨false, [[97]]⟩) ∧
    Gen.validVec op 1 g = Parser.validVec op (some 0) (someIf g ⟨false, [[97]]⟩) ∧
    Gen.validVec op 2 g = Parser.validVec op (some 2) (someIf g ⟨false, [[97]]⟩) := by
  cases op <;> cases g <;> decide

/-- missing quantile parameter -/
theorem C05_quantile_needs_parameter (g : Option Grouping) (u : Option Unwrap) :
    Parser.validRange .quantile none g u = false := by
  cases g <;> cases u <;> rfl

/-- a parameter on anything but quantile_over_time -/
theorem C05_parameter_only_for_quantile (op : Metric.RangeOp) (v : Rat) (g : Option Grouping) (u : Option Unwrap)
    (h : op ≠ .quantile) : Parser.validRange op (some v) g u = false := by
  cases op <;> first | exact absurd rfl h | (cases g <;> cases u <;> rfl)

/-- grouping on sort / sort_desc -/
theorem C05_no_grouping_on_sort (p : Option Int) (g : Grouping) :
    Parser.validVec .sort p (some g) = false ∧ Parser.validVec .sortDesc p (some g) = false := by
  cases p <;> simp [Parser.validVec]

/-- topk / bottomk need a positive parameter; the other aggregations take none -/
theorem C05_topk_parameter (g : Option Grouping) :
    Parser.validVec .topk none g = false ∧ Parser.validVec .bottomk none g = false ∧
    ∀ k : Int, k ≤ 0 → Parser.validVec .topk (some k) g = false ∧ Parser.validVec .bottomk (some k) g = false := by
  refine ⟨by cases g <;> rfl, by cases g <;> rfl, ?_⟩
  intro k hk
  have : ¬ (k > 0) := by omega
  cases g <;> simp [Parser.validVec, this]

/-- unwrap is required exactly by the sample aggregations and forbidden for the line-counting ones -/
theorem C05_unwrap_rule (g : Option Grouping) :
    (∀ op ∈ [Metric.RangeOp.count, .bytes, .bytesRate], ∀ u, Parser.validRange op none g (some u) = false) ∧
    (∀ op ∈ [Metric.RangeOp.avg, .sum, .min, .max, .stdvar, .stddev, .first, .last, .rateCounter],
        Parser.validRange op none g none = false) := by
  constructor
  · intro op hop u
    simp only [List.mem_cons, List.not_mem_nil, or_false] at hop
    rcases hop with rfl | rfl | rfl <;> cases g <;> rfl
  · intro op hop
    simp only [List.mem_cons, List.not_mem_nil, or_false] at hop
    rcases hop with rfl | rfl | rfl | rfl | rfl | rfl | rfl | rfl | rfl <;> cases g <;> rfl

/-- unwrap on a log query: the log-query pipeline is parsed with `allowUnwrap = false` -/
theorem C05_no_unwrap_on_log_query (re : ReEnv) (fuel : Nat) (rest : Parser.Toks) :
    Parser.pipeline re false (fuel + 1) (.kw .pipe :: .kw .unwrap :: rest) = none := by
  simp [Parser.pipeline]

-- non-vacuity: the table really contains accepting and rejecting entries
example : Gen.validRange .quantile true true true = true ∧ Gen.validRange .quantile false true true = false := by decide
example : Gen.validVec .topk 2 true = true ∧ Gen.validVec .sort 0 true = false := by decide


/-! ## parse-level theorems

Over `Parser.parse` (production-by-production model of `logql.Parse` on tokens, tied to the code by
the C05 correspondence), for every regex oracle and every precedence table — unbounded in the size of
the query:

* **accepted ⇒ statically well-formed** (`C05_accepted_is_wellformed`): text that violates a static
  rule (aggregation parameter / grouping / unwrap rules, invalid regex anywhere, duplicate
  `label_format` target, duplicate or invalid named groups, empty drop/keep/distinct, ip filter with an
  ordering operator, scalar operand of a set operation, …) is never accepted, whatever else it contains;
* **canonical writing ⇒ parsed back node for node** (`C05_parse_roundtrip`): the structure a query text
  denotes is the structure the parser returns — the same matchers, stages in order, operators,
  literals, functions, parameters, grouping, range, offset and unwrap. -/

open Parser Unparse

/-- **C05 (static rules)**: whatever tree the parser returns satisfies every static rule. -/
theorem C05_accepted_is_wellformed (re : ReEnv) (prec : Metric.BinOp → Nat) (isLogic : Metric.BinOp → Bool)
    (toks : Toks) (e : Expr) (h : parse re prec isLogic toks = some e) : wfE re isLogic e = true :=
  C05Sound.parse_wf re prec isLogic toks e h

/-- contrapositive reading: a token list whose only candidate tree breaks a static rule is rejected -/
theorem C05_static_violation_rejected (re : ReEnv) (prec : Metric.BinOp → Nat) (isLogic : Metric.BinOp → Bool)
    (toks : Toks) (h : ∀ e, parse re prec isLogic toks = some e → wfE re isLogic e = false) :
    parse re prec isLogic toks = none := by
  cases hp : parse re prec isLogic toks with
  | none => rfl
  | some e =>
    have h1 := C05Sound.parse_wf re prec isLogic toks e hp
    have h2 := h e hp
    rw [h1] at h2
    exact absurd h2 (by decide)

theorem C05_accepted_range_is_valid (re : ReEnv) (prec : Metric.BinOp → Nat) (isLogic : Metric.BinOp → Bool)
    (toks : Toks) (op : Metric.RangeOp) (p : Option Rat) (sel : List Matcher)
    (ss : List Stage) (r : Int) (o : Option Int) (u : Option Unwrap) (g : Option Grouping)
    (h : parse re prec isLogic toks = some (.range op p sel ss r o u g)) :
    validRange op p g u = true :=
  C05Sound.parse_range_valid re prec isLogic toks op p sel ss r o u g h

/-- **C05 (selector)**: a written selector is read back matcher for matcher. -/
theorem C05_selector_roundtrip (re : ReEnv) : SelectorRT re := C05Stages.selector_roundtrip re

/-- **C05 (pipeline)**: written stages are read back stage for stage, in order. -/
theorem C05_pipeline_roundtrip (re : ReEnv) (L : Lits) : PipelineRT re L := C05Stages.pipeline_roundtrip re L

/-- **C05 (meaning)**: every tree with a canonical writing is parsed back from it, node for node, for
every regex oracle, precedence table and spelling of the literals. -/
theorem C05_parse_roundtrip (re : ReEnv) (prec : Metric.BinOp → Nat) (isLogic : Metric.BinOp → Bool) (L : Lits)
    (e : Expr) (hc : canonE re isLogic L e = true) :
    parse re prec isLogic (exprToks L e) = some e :=
  C05Expr.parse_roundtrip re prec isLogic L
    (C05Stages.selector_roundtrip re) (C05Stages.pipeline_roundtrip re L)
    (fun u rest hw hr => C05Stages.unwrap_roundtrip re u rest hw hr)
    (fun r o rest hr ho hrest => C05Stages.rangeOffset_roundtrip L r o rest hr ho hrest)
    (fun g rest hr => C05Stages.grouping_roundtrip g rest hr)
    (fun ls rest => C05Stages.parenLabels_roundtrip ls rest)
    e hc

/-- writing is injective on canonical trees: two different canonical trees never share a writing
(so no text has two meanings) -/
theorem C05_writing_injective (re : ReEnv) (isLogic : Metric.BinOp → Bool) (L : Lits) (e₁ e₂ : Expr)
    (h₁ : canonE re isLogic L e₁ = true) (h₂ : canonE re isLogic L e₂ = true)
    (h : exprToks L e₁ = exprToks L e₂) : e₁ = e₂ := by
  have r₁ := C05_parse_roundtrip re Gen.prec isLogic L e₁ h₁
  have r₂ := C05_parse_roundtrip re Gen.prec isLogic L e₂ h₂
  rw [h, r₂] at r₁
  exact (Option.some.inj r₁).symm

/-- the round trip composed with soundness: canonical trees are statically well-formed -/
theorem C05_canonical_is_wellformed (re : ReEnv) (isLogic : Metric.BinOp → Bool) (L : Lits) (e : Expr)
    (hc : canonE re isLogic L e = true) : wfE re isLogic e = true :=
  C05_accepted_is_wellformed re Gen.prec isLogic _ e (C05_parse_roundtrip re Gen.prec isLogic L e hc)

-- non-vacuity: a canonical tree with a binary operation, parentheses and a range aggregation
private def exRe : ReEnv := ⟨fun _ => true, fun _ => []⟩
private def exL : Lits :=
  { dur := fun _ => [53, 109], num := fun v => if v = 1 then [49] else [50], byt := fun _ => [49, 66], int := fun _ => [50] }
private def exE : Expr :=
  .bin (.vagg .topk (some 2) (some ⟨false, [[97]]⟩) (.range .rate none [⟨[97], .eq, [98]⟩] [.lineFilter .eq [120] false] 300000000000 none none none))
    .gt { bool := true } (.paren (.bin (.vector 1) .add {} (.vector 2)))
example : canonE exRe Gen.isLogic exL exE = true := by decide +kernel
example : (parse exRe Gen.prec Gen.isLogic (exprToks exL exE)).isSome = true := by
  rw [C05_parse_roundtrip exRe Gen.prec Gen.isLogic exL exE (by decide +kernel)]; rfl

/-! ## text level: the lexer model and the independence of layout -/

/-- **C05 (layout)**: a token list written in any admissible layout — any white space and `#`, `//`,
`/* */` comments between (and in front of) the tokens, strings in any of three quoting styles, numbers in
any spelling that lexes to the token, nothing at all between tokens that cannot fuse — is read back by the
lexer as exactly that token list. -/
theorem C05_tokenize_render (lead : Layout.Gap) (ps : List Layout.Piece)
    (hl : lead.all Layout.GapItem.ok = true) (hok : Layout.piecesOK ps = true) (hsep : Layout.Sep ps = true) :
    Lexer.tokenize (Layout.gapBytes lead ++ Layout.render ps) = .ok (ps.map (·.tok)) :=
  C05Layout.tokenize_render lead ps hl hok hsep

/-- **C05 (independence of white space, comments and quoting style)**: two writings of the same tokens
lex alike. -/
theorem C05_layout_independent (lead₁ lead₂ : Layout.Gap) (ps₁ ps₂ : List Layout.Piece)
    (h₁ : lead₁.all Layout.GapItem.ok = true ∧ Layout.piecesOK ps₁ = true ∧ Layout.Sep ps₁ = true)
    (h₂ : lead₂.all Layout.GapItem.ok = true ∧ Layout.piecesOK ps₂ = true ∧ Layout.Sep ps₂ = true)
    (htoks : ps₁.map (·.tok) = ps₂.map (·.tok)) :
    Lexer.tokenize (Layout.gapBytes lead₁ ++ Layout.render ps₁) = Lexer.tokenize (Layout.gapBytes lead₂ ++ Layout.render ps₂) :=
  C05Layout.layout_independent lead₁ lead₂ ps₁ ps₂ h₁ h₂ htoks

/-- **C05 (text to tree)**: every text that writes the canonical tokens of a tree — in whatever layout —
is parsed (lexer model, then parser model) into exactly that tree. -/
theorem C05_text_roundtrip (re : ReEnv) (prec : Metric.BinOp → Nat) (isLogic : Metric.BinOp → Bool) (L : Lits)
    (e : Expr) (hc : canonE re isLogic L e = true)
    (lead : Layout.Gap) (ps : List Layout.Piece)
    (hl : lead.all Layout.GapItem.ok = true) (hok : Layout.piecesOK ps = true) (hsep : Layout.Sep ps = true)
    (htoks : ps.map (·.tok) = exprToks L e) :
    Layout.parseText re prec isLogic (Layout.gapBytes lead ++ Layout.render ps) = .ok e := by
  have ht := C05_tokenize_render lead ps hl hok hsep
  have hp := C05_parse_roundtrip re prec isLogic L e hc
  unfold Layout.parseText
  rw [ht, htoks]
  simp only [hp]

end C05
