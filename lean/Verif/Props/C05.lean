import Verif.Model.Parser
import Verif.Gen.Tokens
import Verif.Gen.Static
import Verif.Gen.Prec
/-! # C05 — Query text is parsed into the structure it denotes

`Parser.parse` is the production-by-production model of `logql.Parse` over tokens; the C05
correspondence ties it (and the lexer) to the code on grammar-derived queries in all layouts and on
their corruptions.  This file holds the property theorems that are decided by finite tables: the
regenerated token table and static-rule tables (`Gen.tokenOf`, `Gen.validRange`, `Gen.validVec`,
obtained by calling the lexer / parser on every entry, on every run) agree with the grammar written
here by hand, and the named static rules hold of the model for every parameter, grouping and unwrap
expression.  The parse-level theorems (accepted ⇒ statically well-formed; canonical writing ⇒ parsed
back) are in `Props/C05Parse.lean`. -/
namespace C05
open Syntax

/-- the LogQL grammar's fixed spellings, written from the language reference -/
def expected : List (String × K) := [
  ("!=", .neq), ("!~", .nre), ("%", .mod), ("(", .lparen), (")", .rparen), ("*", .mul), ("+", .add), (",", .comma), ("-", .sub),
  (".", .dot), ("/", .div), ("<", .lt), ("<=", .lte), ("=", .eq), ("==", .cmpEq), ("=~", .re), (">", .gt), (">=", .gte),
  ("[", .lbracket), ("]", .rbracket), ("^", .pow), ("absent_over_time", .absentOverTime), ("and", .and), ("avg", .avg),
  ("avg_over_time", .avgOverTime), ("bool", .bool), ("bottomk", .bottomk), ("by", .by_), ("bytes", .bytesConv),
  ("bytes_over_time", .bytesOverTime), ("bytes_rate", .bytesRate), ("count", .count), ("count_over_time", .countOverTime),
  ("decolorize", .decolorize), ("distinct", .distinct), ("drop", .drop), ("duration", .durationConv),
  ("duration_seconds", .durationSecondsConv), ("first_over_time", .firstOverTime), ("group_left", .groupLeft),
  ("group_right", .groupRight), ("ignoring", .ignoring), ("ip", .ip), ("json", .json), ("keep", .keep),
  ("label_format", .labelFormat), ("label_replace", .labelReplace), ("last_over_time", .lastOverTime),
  ("line_format", .lineFormat), ("logfmt", .logfmt), ("max", .max), ("max_over_time", .maxOverTime), ("min", .min),
  ("min_over_time", .minOverTime), ("offset", .offset), ("on", .on), ("or", .or), ("pattern", .pattern),
  ("quantile_over_time", .quantileOverTime), ("rate", .rate), ("rate_counter", .rateCounter), ("regexp", .regexp),
  ("sort", .sort), ("sort_desc", .sortDesc), ("stddev", .stddev), ("stddev_over_time", .stddevOverTime), ("stdvar", .stdvar),
  ("stdvar_over_time", .stdvarOverTime), ("sum", .sum), ("sum_over_time", .sumOverTime), ("topk", .topk), ("unless", .unless),
  ("unpack", .unpack), ("unwrap", .unwrap), ("vector", .vector), ("without", .without), ("{", .lbrace), ("|", .pipe),
  ("|=", .pipeExact), ("|~", .pipeMatch), ("}", .rbrace)]

/-- names that are functions only in front of `(` / `by` / `without` and identifiers elsewhere -/
def expectedFunctions : List String := [
  "absent_over_time", "avg", "avg_over_time", "bottomk", "bytes", "bytes_over_time", "bytes_rate", "count", "count_over_time",
  "duration", "duration_seconds", "first_over_time", "ip", "label_replace", "last_over_time", "max", "max_over_time", "min",
  "min_over_time", "quantile_over_time", "rate", "rate_counter", "sort", "sort_desc", "stddev", "stddev_over_time", "stdvar",
  "stdvar_over_time", "sum", "sum_over_time", "topk", "vector"]

/-- **C05 (token table)**: the lexer maps every fixed spelling of the grammar to its own token —
`>=` is `gte` and never `gt`, `5m`-style units aside (those are in the correspondence). -/
theorem C05_token_table :
    Gen.spellings.map (fun s => (s, Gen.tokenOf s)) = expected.map (fun p => (p.1, some p.2)) := by
  decide +kernel

theorem C05_function_names : Gen.identAlone = expectedFunctions := by decide +kernel

/-- distinct spellings denote distinct tokens -/
theorem C05_tokens_injective : (expected.map (·.2)).Nodup := by decide +kernel

/-- **C05 (operators)**: every binary operator spelling reaches the operator it denotes. -/
theorem C05_binop_spellings :
    ["or", "and", "unless", "+", "-", "*", "/", "%", "^", "==", "!=", ">", ">=", "<", "<="].map
      (fun s => (Gen.tokenOf s).bind binOpOf)
    = [some .or, some .and, some .unless, some .add, some .sub, some .mul, some .div, some .mod, some .pow,
       some .eq, some .ne, some .gt, some .ge, some .lt, some .le] := by decide +kernel

theorem C05_cmp_spellings :
    ["==", "!=", ">", ">=", "<", "<="].map (fun s => (Gen.tokenOf s).bind Parser.cmpOpOf)
    = [some .eq, some .ne, some .gt, some .ge, some .lt, some .le] := by decide +kernel

theorem C05_matcher_spellings :
    ["=", "!=", "=~", "!~"].map (fun s => (Gen.tokenOf s).bind Parser.strOpOf)
    = [some .eq, some .ne, some .re, some .nre] := by decide +kernel

theorem C05_range_spellings :
    ["count_over_time", "rate", "rate_counter", "bytes_over_time", "bytes_rate", "avg_over_time", "sum_over_time", "min_over_time",
     "max_over_time", "stdvar_over_time", "stddev_over_time", "quantile_over_time", "first_over_time", "last_over_time",
     "absent_over_time"].map (fun s => (Gen.tokenOf s).bind rangeOpOf)
    = [some .count, some .rate, some .rateCounter, some .bytes, some .bytesRate, some .avg, some .sum, some .min, some .max,
       some .stdvar, some .stddev, some .quantile, some .first, some .last, some .absent] := by decide +kernel

theorem C05_vector_spellings :
    ["sum", "avg", "count", "max", "min", "stddev", "stdvar", "bottomk", "topk", "sort", "sort_desc"].map
      (fun s => (Gen.tokenOf s).bind vecOpOf)
    = [some .sum, some .avg, some .count, some .max, some .min, some .stddev, some .stdvar, some .bottomk, some .topk,
       some .sort, some .sortDesc] := by decide +kernel

/-! ## static rules -/

private def someIf {α} (b : Bool) (a : α) : Option α := if b then some a else none

/-- **C05 (static rules, regenerated)**: for every range operation and every combination of
parameter / grouping / unwrap, the parser accepts exactly when the model's `validRange` does. -/
theorem C05_static_range (op : Metric.RangeOp) (p g u : Bool) :
    Gen.validRange op p g u =
      Parser.validRange op (someIf p (1/2)) (someIf g ⟨false, [[97]]⟩) (someIf u ⟨[], [118], []⟩) := by
  cases op <;> cases p <;> cases g <;> cases u <;> rfl

/-- the model's rule does not depend on *which* parameter, grouping or unwrap is given -/
theorem validRange_shape (op : Metric.RangeOp) (p : Option Rat) (g : Option Grouping) (u : Option Unwrap) :
    Parser.validRange op p g u =
      Parser.validRange op (someIf p.isSome (1/2)) (someIf g.isSome ⟨false, [[97]]⟩) (someIf u.isSome ⟨[], [118], []⟩) := by
  cases p <;> cases g <;> cases u <;> cases op <;> rfl

/-- **C05 (static rules, all instances)**: whatever the parameter value, grouping labels and unwrap
expression are, acceptance by the model is the regenerated table at the corresponding shape. -/
theorem C05_static_range_all (op : Metric.RangeOp) (p : Option Rat) (g : Option Grouping) (u : Option Unwrap) :
    Parser.validRange op p g u = Gen.validRange op p.isSome g.isSome u.isSome := by
  rw [validRange_shape, C05_static_range]

theorem C05_static_vec (op : Metric.VecOp) (g : Bool) :
    Gen.validVec op 0 g = Parser.validVec op none (someIf g ⟨false, [[97]]⟩) ∧
    Gen.validVec op 1 g = Parser.validVec op (some 0) (someIf g ⟨false, [[97]]⟩) ∧
    Gen.validVec op 2 g = Parser.validVec op (some 2) (someIf g ⟨false, [[97]]⟩) := by
  cases op <;> cases g <;> decide

/-- missing quantile parameter -/
theorem C05_quantile_needs_parameter (g : Option Grouping) (u : Option Unwrap) :
    Parser.validRange .quantile none g u = false := by
  cases g <;> cases u <;> rfl

/-- a parameter on anything but quantile_over_time -/
theorem C05_parameter_only_for_quantile (op : Metric.RangeOp) (v : Rat) (g : Option Grouping) (u : Option Unwrap)
    (h : op ≠ .quantile) : Parser.validRange op (some v) g u = false := by
  cases op <;> first | exact absurd rfl h | (cases g <;> cases u <;> rfl)

/-- grouping on sort / sort_desc -/
theorem C05_no_grouping_on_sort (p : Option Int) (g : Grouping) :
    Parser.validVec .sort p (some g) = false ∧ Parser.validVec .sortDesc p (some g) = false := by
  cases p <;> simp [Parser.validVec]

/-- topk / bottomk need a positive parameter; the other aggregations take none -/
theorem C05_topk_parameter (g : Option Grouping) :
    Parser.validVec .topk none g = false ∧ Parser.validVec .bottomk none g = false ∧
    ∀ k : Int, k ≤ 0 → Parser.validVec .topk (some k) g = false ∧ Parser.validVec .bottomk (some k) g = false := by
  refine ⟨by cases g <;> rfl, by cases g <;> rfl, ?_⟩
  intro k hk
  have : ¬ (k > 0) := by omega
  cases g <;> simp [Parser.validVec, this]

/-- unwrap is required exactly by the sample aggregations and forbidden for the line-counting ones -/
theorem C05_unwrap_rule (g : Option Grouping) :
    (∀ op ∈ [Metric.RangeOp.count, .bytes, .bytesRate], ∀ u, Parser.validRange op none g (some u) = false) ∧
    (∀ op ∈ [Metric.RangeOp.avg, .sum, .min, .max, .stdvar, .stddev, .first, .last, .rateCounter],
        Parser.validRange op none g none = false) := by
  constructor
  · intro op hop u
    simp only [List.mem_cons, List.not_mem_nil, or_false] at hop
    rcases hop with rfl | rfl | rfl <;> cases g <;> rfl
  · intro op hop
    simp only [List.mem_cons, List.not_mem_nil, or_false] at hop
    rcases hop with rfl | rfl | rfl | rfl | rfl | rfl | rfl | rfl | rfl <;> cases g <;> rfl

/-- unwrap on a log query: the log-query pipeline is parsed with `allowUnwrap = false` -/
theorem C05_no_unwrap_on_log_query (re : ReEnv) (fuel : Nat) (rest : Parser.Toks) :
    Parser.pipeline re false (fuel + 1) (.kw .pipe :: .kw .unwrap :: rest) = none := by
  simp [Parser.pipeline]

-- non-vacuity: the table really contains accepting and rejecting entries
example : Gen.validRange .quantile true true true = true ∧ Gen.validRange .quantile false true true = false := by decide
example : Gen.validVec .topk 2 true = true ∧ Gen.validVec .sort 0 true = false := by decide

end C05
