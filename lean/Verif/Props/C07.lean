import Verif.Lemmas.C07
import Verif.Lemmas.C07Sem
import Verif.Lemmas.RegexOrd
/-! # C07 — Rewriting stages change exactly what LogQL says they change

Theorems over `LogQL.Stage.apply` for label_format / line_format / drop / keep / decolorize (tied to the code by the C07 correspondence, which evaluates *query text*, so the parser's choice of rename source and target is part of what is compared).  Templates and the ANSI matcher are reached through `Env`. -/
namespace LogQL.C07
open LogQL

/-- **C07 (never drops)**: none of these stages drops a line (and none has state) -/
theorem C07_rewrite_never_drops :
    ∀ (env : Env) (ts : Int) (s : Stage),
      isRewriter s = true →
        ∀ (seen : Seen) (a : LogQL.Acc),
          (Stage.apply env ts s seen a).fst.isSome = true ∧ (Stage.apply env ts s seen a).snd = seen :=
  @rewrite_never_drops

/-- **C07 (label_format dst=src)**: dst takes src's value, src disappears, nothing else changes -/
theorem C07_rename_spec :
    ∀ (env : Env) (ts : Int) (seen : Seen) (a a' : LogQL.Acc) (dst src v : Bytes),
      dst ≠ src →
        a.labels.get? src = some v →
          (Stage.apply env ts (Stage.labelFormat [(dst, src)] []) seen a).fst = some a' →
            a'.labels.get? dst = some v ∧
              a'.labels.get? src = none ∧
                a'.line = a.line ∧ ∀ (k : Bytes), k ≠ dst → k ≠ src → a'.labels.get? k = a.labels.get? k :=
  @rename_spec

/-- …and nothing at all changes when src is absent -/
theorem C07_rename_absent :
    ∀ (env : Env) (ts : Int) (seen : Seen) (a a' : LogQL.Acc) (dst src : Bytes),
      a.labels.get? src = none → (Stage.apply env ts (Stage.labelFormat [(dst, src)] []) seen a).fst = some a' → a' = a :=
  @rename_absent

/-- **C07 (label_format dst="template")**: dst is the expansion over the current labels, line and time -/
theorem C07_template_spec :
    ∀ (env : Env) (ts : Int) (seen : Seen) (a a' : LogQL.Acc) (dst : Bytes) (t : Template.Tpl)
      (out : Bytes),
      env.template t ts a.line a.labels = some out →
        (Stage.apply env ts (Stage.labelFormat [] [(dst, t)]) seen a).fst = some a' →
          a'.labels.get? dst = some out ∧ a'.line = a.line ∧ ∀ (k : Bytes), k ≠ dst → a'.labels.get? k = a.labels.get? k :=
  @template_spec

/-- a failing label template leaves line and other labels alone and flags `__error__` -/
theorem C07_label_template_failure_flags :
    ∀ (env : Env) (ts : Int) (seen : Seen) (a a' : LogQL.Acc) (dst : Bytes)
      (t : Template.Tpl),
      env.template t ts a.line a.labels = none →
        (Stage.apply env ts (Stage.labelFormat [] [(dst, t)]) seen a).fst = some a' →
          a'.line = a.line ∧
            a'.labels.has errorLabel = true ∧
              ∀ (k : Bytes), k ≠ errorLabel → k ≠ errorDetailsLabel → a'.labels.get? k = a.labels.get? k :=
  @label_template_failure_flags

/-- **C07 (line_format)**: the line becomes the expansion, labels untouched -/
theorem C07_lineFormat_spec :
    ∀ (env : Env) (ts : Int) (seen : Seen) (a : LogQL.Acc) (t : Template.Tpl) (out : Bytes),
      env.template t ts a.line a.labels = some out →
        (Stage.apply env ts (Stage.lineFormat t) seen a).fst = some { line := out, labels := a.labels } :=
  @lineFormat_spec

/-- **C07 (failing template)**: line unchanged, `__error__` set -/
theorem C07_lineFormat_failure_keeps_line_and_flags :
    ∀ (env : Env) (ts : Int) (seen : Seen) (a : LogQL.Acc) (t : Template.Tpl),
      env.template t ts a.line a.labels = none →
        (Stage.apply env ts (Stage.lineFormat t) seen a).fst =
          some { line := a.line, labels := setError a.labels "template error" } :=
  @lineFormat_failure_keeps_line_and_flags

/-- **C07 (drop)**: exactly the labels for which `dropPair` holds (named, or all value matchers match) are removed -/
theorem C07_drop_spec :
    ∀ (env : Env) (ts : Int) (seen : Seen) (a : LogQL.Acc) (names : List Bytes) (ms : List StrMatcher),
      (Stage.apply env ts (Stage.drop names ms) seen a).fst =
        some { line := a.line, labels := List.filter (fun (kv : Bytes × Bytes) => !dropPair env names ms kv) a.labels } :=
  @drop_spec

/-- **C07 (keep)**: exactly those labels are kept -/
theorem C07_keep_spec :
    ∀ (env : Env) (ts : Int) (seen : Seen) (a : LogQL.Acc) (names : List Bytes) (ms : List StrMatcher),
      (Stage.apply env ts (Stage.keep names ms) seen a).fst =
        some { line := a.line, labels := List.filter (fun (kv : Bytes × Bytes) => dropPair env names ms kv) a.labels } :=
  @keep_spec

/-- drop with bare names removes exactly the named labels -/
theorem C07_drop_names_get :
    ∀ (env : Env) (ts : Int) (seen : Seen) (a a' : LogQL.Acc) (names : List Bytes),
      (Stage.apply env ts (Stage.drop names []) seen a).fst = some a' →
        ∀ (k : Bytes), a'.labels.get? k = if (names.any fun (x : Bytes) => x == k) = true then none else a.labels.get? k :=
  @drop_names_get

/-- keep with bare names removes all others -/
theorem C07_keep_names_get :
    ∀ (env : Env) (ts : Int) (seen : Seen) (a a' : LogQL.Acc) (names : List Bytes),
      (Stage.apply env ts (Stage.keep names []) seen a).fst = some a' →
        ∀ (k : Bytes), a'.labels.get? k = if (names.any fun (x : Bytes) => x == k) = true then a.labels.get? k else none :=
  @keep_names_get

/-- decolorize touches no label -/
theorem C07_decolorize_line_only :
    ∀ (env : Env) (ts : Int) (seen : Seen) (a a' : LogQL.Acc),
      (Stage.apply env ts Stage.decolorize seen a).fst = some a' → a'.labels = a.labels :=
  @decolorize_line_only

/-- **C07 (decolorize)**: a line with no ANSI sequence is unchanged -/
theorem C07_stripAll_none :
    ∀ (env : Env) (fuel : Nat) (s : Bytes), env.reFind env.ansi s = none → stripAll env (fuel + 1) s = s :=
  @stripAll_none

/-- …and otherwise exactly the matched sequences are cut out, left to right -/
theorem C07_stripAll_some :
    ∀ (env : Env) (fuel : Nat) (s : Bytes) (a b : Nat),
      env.reFind env.ansi s = some (a, b) →
        a < b → stripAll env (fuel + 1) s = List.take a s ++ stripAll env fuel (List.drop b s) :=
  @stripAll_some


/-! ## `decolorize` against the language of the ANSI expression (hand-added)

`C07Sem.Stripped r s out`: `out` is `s` with non-empty words of the language of `r` cut out — each the
leftmost one of what is left (`NoneBefore`) — until the rest contains none.  `ExecEnv.ansi` is the
expression of `decolorize.go`, `ExecEnv.env` the environment the correspondence runs. -/

/-- **C07 (decolorize)**: ANSI sequences, and nothing else, are removed -/
theorem C07_decolorize_strips_ansi (ts : Int) (seen : Seen) (a : LogQL.Acc) :
    ∃ line', (Stage.apply ExecEnv.env ts Stage.decolorize seen a).fst = some { a with line := line' } ∧
      C07Sem.Stripped ExecEnv.ansi a.line line' :=
  C07Sem.decolorize_strips_ansi ts seen a

/-- …so nothing is added or reordered -/
theorem C07_decolorize_sublist (ts : Int) (seen : Seen) (a : LogQL.Acc) :
    ∃ line', (Stage.apply ExecEnv.env ts Stage.decolorize seen a).fst = some { a with line := line' } ∧
      line'.Sublist a.line := by
  obtain ⟨l, h1, h2⟩ := C07Sem.decolorize_strips_ansi ts seen a
  exact ⟨l, h1, h2.sublist⟩

/-- every ANSI sequence is non-empty (the loop of `stripAll` always makes progress) -/
theorem C07_ansi_no_empty_word : C07Sem.NoEmptyWord ExecEnv.ansi := C07Sem.ansi_noEmptyWord

/-- the reported span of the leftmost-match search starts where the first match of the expression starts -/
theorem C07_search_leftmost (r : Regex.Re) (s : List Nat) (a b : Nat) (caps : Regex.Caps)
    (h : Regex.searchFrom r (Regex.fuelFor r s) (s.length + 1) s 0 = some (a, b, caps))
    (pre mid post : List Nat) (hs : s = pre ++ mid ++ post) (hm : Regex.Matches r pre.length mid post) :
    a ≤ pre.length := RegexLeft.search_leftmost r s a b caps h pre mid post hs hm


/-- **which match** (leftmost-first, as Go's `regexp`): `Regex.ends r pos s` lists the lengths of the prefixes
of `s` that `r` matches at offset `pos` in priority order — left alternative first, greedy iteration, optional
part present before absent — defined without continuation, fuel or captures (Verif/Env/RegexOrd.lean); it
enumerates exactly the matches of the relational semantics -/
theorem C07_ends_enumerates_matches (r : Regex.Re) (pos : Nat) (s : List Nat) (n : Nat) :
    n ∈ Regex.ends r pos s ↔ n ≤ s.length ∧ Regex.Matches r pos (s.take n) (s.drop n) :=
  RegexOrd.mem_ends_iff r pos s n

/-- …and the span an unanchored search reports — what `decolorize` cuts, what group 0 of the `regexp` stage
is — starts at the leftmost offset where the expression matches at all and ends at the FIRST element of that
list -/
theorem C07_search_is_leftmost_first (r : Regex.Re) (s : List Nat) (a b : Nat) (caps : Regex.Caps)
    (h : Regex.searchFrom r (Regex.fuelFor r s) (s.length + 1) s 0 = some (a, b, caps)) :
    (∀ pre mid post, s = pre ++ mid ++ post → Regex.Matches r pre.length mid post → a ≤ pre.length) ∧
    a ≤ b ∧ (Regex.ends r a (s.drop a)).head? = some (b - a) ∧
    (b - a ≤ (s.drop a).length ∧ Regex.Matches r a ((s.drop a).take (b - a)) ((s.drop a).drop (b - a))) :=
  RegexOrd.searchFrom_leftmost_first r s a b caps h

/-- non-vacuity: `(a|ab)(c|bcd)?` on "abcd" prefers the end 4 (then 1, 3, 2) -/
example : Regex.ends (.seq (.alt (.chr 97) (.seq (.chr 97) (.chr 98))) (.opt (.alt (.chr 99) (.seq (.chr 98) (.seq (.chr 99) (.chr 100))))))
    0 [97, 98, 99, 100] = [4, 1, 3, 2] := by decide


end LogQL.C07
