import Verif.Lemmas.C09
/-! # C09 — Range aggregations cover exactly their window at every step

Theorems over `Metric.rangeRun` (model of `rangeAggIterator`: `clearWindow`/`fillWindow`/stepper), `Metric.grid` (model of `stepper`) and `Metric.extract`/`aggregate` (tied to the code by the C09 correspondence, which also checks grid independence directly on the implementation).  `windowAt r T` is the closed window [T − r, T]; the iterator is run over the grid shifted by the offset and stamps T + offset, so in query terms the window is [T − o − r, T − o] stamped T. -/
namespace Metric.C09
open LogQL Metric

/-- **C09 (refinement)**: for samples in time order, the sliding-window iterator reports at every time of any non-decreasing grid exactly the declarative window: per series, the aggregate of the samples with T − r ≤ ts ≤ T -/
theorem C09_rangeRun_spec :
    ∀ (op : RangeOp) (param : Option Rat) (rangeNs offsetNs : Int),
      0 ≤ rangeNs →
        ∀ (hasUnwrap : Bool) (regroup : AggLabels → AggLabels) (ts : List Int),
          List.Pairwise (fun (x1 x2 : Int) => x1 ≤ x2) ts →
            ∀ (smps : List Smp),
              SortedTs smps →
                rangeRun op param rangeNs offsetNs hasUnwrap regroup ts [] smps =
                  List.map (stepAt op param rangeNs offsetNs hasUnwrap regroup smps) ts :=
  @rangeRun_spec

/-- **C09 (grid independence)**: the value at T does not depend on where the grid starts, on the step, or on which other times were evaluated -/
theorem C09_value_indep_of_grid :
    ∀ (op : RangeOp) (param : Option Rat) (rangeNs offsetNs : Int),
      0 ≤ rangeNs →
        ∀ (hasUnwrap : Bool) (regroup : AggLabels → AggLabels) (ts1 ts2 : List Int),
          List.Pairwise (fun (x1 x2 : Int) => x1 ≤ x2) ts1 →
            List.Pairwise (fun (x1 x2 : Int) => x1 ≤ x2) ts2 →
              ∀ (smps : List Smp),
                SortedTs smps →
                  ∀ (T : Int),
                    T ∈ ts1 →
                      T ∈ ts2 →
                        stepAt op param rangeNs offsetNs hasUnwrap regroup smps T ∈
                            rangeRun op param rangeNs offsetNs hasUnwrap regroup ts1 [] smps ∧
                          stepAt op param rangeNs offsetNs hasUnwrap regroup smps T ∈
                            rangeRun op param rangeNs offsetNs hasUnwrap regroup ts2 [] smps :=
  @value_indep_of_grid

/-- **C09 (instant = range at T)** -/
theorem C09_instant_eq_range_at :
    ∀ (op : RangeOp) (param : Option Rat) (rangeNs offsetNs : Int),
      0 ≤ rangeNs →
        ∀ (hasUnwrap : Bool) (regroup : AggLabels → AggLabels) (smps : List Smp),
          SortedTs smps →
            ∀ (T : Int),
              rangeRun op param rangeNs offsetNs hasUnwrap regroup [T] [] smps =
                [stepAt op param rangeNs offsetNs hasUnwrap regroup smps T] :=
  @instant_eq_range_at

/-- **C09 (stamped with T)**: every step carries its evaluation time (grid time + offset), from any iterator state -/
theorem C09_stamped :
    ∀ (op : RangeOp) (param : Option Rat) (rangeNs offsetNs : Int) (hasUnwrap : Bool)
      (regroup : AggLabels → AggLabels) (ts : List Int) (window pending : List Smp),
      List.map (fun (x : Step) => x.t) (rangeRun op param rangeNs offsetNs hasUnwrap regroup ts window pending) =
        List.map (fun (x : Int) => x + offsetNs) ts :=
  @stamped

/-- **C09 (absent when empty)**: every reported series has a sample of its label set in the window -/
theorem C09_absent_when_empty :
    ∀ (op : RangeOp) (param : Option Rat) (rangeNs offsetNs : Int) (hasUnwrap : Bool)
      (regroup : AggLabels → AggLabels) (smps : List Smp) (T : Int) (x : Sample),
      x ∈ (stepAt op param rangeNs offsetNs hasUnwrap regroup smps T).samples →
        ∃ (s : Smp), s ∈ windowAt rangeNs T smps ∧ regroup s.set = x.set :=
  @absent_when_empty

/-- an empty window reports no series -/
theorem C09_empty_window_reports_nothing :
    ∀ (op : RangeOp) (param : Option Rat) (rangeNs offsetNs : Int) (hasUnwrap : Bool)
      (regroup : AggLabels → AggLabels) (smps : List Smp) (T : Int),
      windowAt rangeNs T smps = [] → (stepAt op param rangeNs offsetNs hasUnwrap regroup smps T).samples = [] :=
  @empty_window_reports_nothing

/-- **C09 (grid)**: the evaluation times are start + k·step ≤ end -/
theorem C09_grid_spec :
    ∀ (start end_ step : Int),
      0 < step → ∀ (T : Int), T ∈ grid start end_ step ↔ ∃ (k : Nat), T = start + step * (↑k : Int) ∧ T ≤ end_ :=
  @grid_spec

/-- the grid is increasing (hypothesis of the refinement) -/
theorem C09_grid_sorted :
    ∀ (start end_ step : Int), 0 < step → List.Pairwise (fun (x1 x2 : Int) => x1 ≤ x2) (grid start end_ step) :=
  @grid_sorted

/-- ⌊(end − start)/step⌋ + 1 evaluation times -/
theorem C09_grid_length :
    ∀ (start end_ step : Int),
      0 < step → start ≤ end_ → (grid start end_ step).length = ((end_ - start) / step).toNat + 1 :=
  @grid_length

/-- count_over_time is the number of samples of the series in the window -/
theorem C09_count_is_group_size :
    ∀ (param : Option Rat) (rangeNs : Int) (hasUnwrap : Bool) (vs : List Val),
      aggregate RangeOp.count param rangeNs hasUnwrap vs = Val.q (↑vs.length : Rat) :=
  @count_is_group_size

/-- rate = count / range in seconds -/
theorem C09_rate_is_count_over_range :
    ∀ (param : Option Rat) (rangeNs : Int),
      rangeNs ≠ 0 →
        ∀ (vs : List Val),
          aggregate RangeOp.rate param rangeNs false vs = Val.q ((↑vs.length : Rat) / ((↑rangeNs : Rat) / 1000000000)) :=
  @rate_is_count_over_range

/-- count_over_time: one sample per line -/
theorem C09_extract_count :
    ∀ (env : Env) (uw : Option Unwrap) (e : Entry), extract env RangeOp.count uw e = some (Val.q 1) :=
  @extract_count

/-- bytes_over_time: the byte length of the line -/
theorem C09_extract_bytes :
    ∀ (env : Env) (uw : Option Unwrap) (e : Entry),
      extract env RangeOp.bytes uw e = some (Val.q (↑(List.length e.line) : Rat)) :=
  @extract_bytes

/-- unwrap: a missing label contributes no sample -/
theorem C09_extract_unwrap_missing :
    ∀ (env : Env) (u : Unwrap) (e : Entry),
      e.labels.get? u.label = none → extract env RangeOp.sum (some u) e = none :=
  @extract_unwrap_missing


end Metric.C09
