package main

import (
	"encoding/hex"
	"fmt"
	"math/rand"
	"strconv"
	"strings"
	"time"
)

type c15Entry struct {
	T uint64 `json:"t"`
	V []byte `json:"v"`
}

type c15Stream struct {
	Container    string     `json:"container"`
	HasContainer bool       `json:"has_container"`
	Entries      []c15Entry `json:"entries"`
}

type c15Case struct {
	Timestamp bool        `json:"timestamp"`
	Container bool        `json:"container"`
	Color     bool        `json:"color"`
	Streams   []c15Stream `json:"streams"`
}

func (t c15Case) Req() Sexp {
	ss := make([]Sexp, len(t.Streams))
	for i, s := range t.Streams {
		es := make([]Sexp, len(s.Entries))
		for j, e := range s.Entries {
			es[j] = L(A(strconv.FormatUint(e.T, 10)), B(string(e.V)))
		}
		ss[i] = L(B(s.Container), LS(es))
	}
	return L(A("renderout"), N(b2i(t.Timestamp)), N(b2i(t.Container)), N(b2i(t.Color)), LS(ss))
}

func c15Gen(r *rand.Rand) c15Case {
	t := c15Case{Timestamp: r.Intn(2) == 0, Container: r.Intn(2) == 0, Color: r.Intn(2) == 0}
	n := r.Intn(6)
	if r.Intn(4) == 0 {
		n = r.Intn(41) // well above the palette size
	}
	used := map[uint64]bool{}
	c15Bases := []uint64{0, 999999999, 946684800e9, 951782400e9, 4102444800e9, 9223372035e9}
	boundary, base := r.Intn(6) == 0, c15Bases[r.Intn(len(c15Bases))]
	msgs := []string{"hello", "line\n", "crlf\r\n", "a\nb", "", " lead", "trail \n\n", "\xff\x00", "tab\t", "\r"}
	for i := 0; i < n; i++ {
		s := c15Stream{Container: fmt.Sprintf("c%d", i), HasContainer: true}
		if r.Intn(10) == 0 {
			s.Container = fmt.Sprintf("c%d", r.Intn(i+1)) // two streams of one container
		}
		if r.Intn(15) == 0 {
			s.Container, s.HasContainer = "", false
		}
		for j, m := 0, r.Intn(4); j < m; j++ {
			ts := uint64(1700000000e9) + uint64(r.Intn(100))*250000000 + uint64(r.Intn(3))
			if boundary {
				// instants at and next to the calendar's corner points, the Unix epoch itself included
				ts = base + uint64(r.Intn(3))*250000000 + uint64(r.Intn(2))
			}
			for used[ts] {
				ts++
			}
			used[ts] = true
			s.Entries = append(s.Entries, c15Entry{T: ts, V: []byte(pick(r, msgs))})
		}
		t.Streams = append(t.Streams, s)
	}
	if r.Intn(8) == 0 {
		// one container only (or none named at all), split over several streams whose entries interleave in
		// time, or a single stream handed over unsorted: the order of the output is by timestamp all the same
		name, has := "web", r.Intn(4) != 0
		if !has {
			name = ""
		}
		t.Streams = nil
		var all []c15Entry
		for j, m := 0, 2+r.Intn(7); j < m; j++ {
			ts := uint64(1700000000e9) + uint64(j)*500000000 + uint64(r.Intn(3))
			all = append(all, c15Entry{T: ts, V: []byte(fmt.Sprintf("m%d", j))})
		}
		r.Shuffle(len(all), func(a, b int) { all[a], all[b] = all[b], all[a] })
		k := 1 + r.Intn(3)
		for i := 0; i < k; i++ {
			t.Streams = append(t.Streams, c15Stream{Container: name, HasContainer: has})
		}
		for _, e := range all {
			i := r.Intn(k)
			t.Streams[i].Entries = append(t.Streams[i].Entries, e)
		}
		return t
	}
	if len(t.Streams) > 0 && r.Intn(5) == 0 {
		// an exact duplicate entry (equal timestamp, same container and message): order is immaterial
		s := &t.Streams[r.Intn(len(t.Streams))]
		if len(s.Entries) > 0 {
			s.Entries = append(s.Entries, s.Entries[0])
		}
	}
	return t
}

func c15Impl(d *cliDriver) func(t c15Case) Sexp {
	return func(t c15Case) Sexp {
		type ent struct {
			T uint64 `json:"t"`
			V string `json:"v"`
		}
		type st struct {
			Labels  map[string]string `json:"labels"`
			Entries []ent             `json:"entries"`
		}
		req := struct {
			Op        string `json:"op"`
			Timestamp bool   `json:"timestamp"`
			Container bool   `json:"container"`
			Color     bool   `json:"color"`
			Streams   []st   `json:"streams"`
		}{Op: "render", Timestamp: t.Timestamp, Container: t.Container, Color: t.Color}
		for _, s := range t.Streams {
			x := st{Labels: map[string]string{"other": "x"}}
			if s.HasContainer {
				x.Labels["container"] = s.Container
			}
			for _, e := range s.Entries {
				x.Entries = append(x.Entries, ent{e.T, hex.EncodeToString(e.V)})
			}
			req.Streams = append(req.Streams, x)
		}
		r := d.Ask(req)
		switch {
		case r.Panic != "":
			return L(A("panic"))
		case r.Err != "":
			return L(A("err"), B(r.Err))
		}
		b, _ := hex.DecodeString(r.Out)
		return L(A("ok"), B(string(b)))
	}
}

type c16Case struct {
	Op    string  `json:"op"` // timestamp timerange step
	Value string  `json:"value,omitempty"`
	Def   int64   `json:"def,omitempty"`
	Now   int64   `json:"now,omitempty"`
	Start *string `json:"start,omitempty"`
	End   *string `json:"end,omitempty"`
	Since *string `json:"since,omitempty"`
	Step  *string `json:"step,omitempty"`
	From  int64   `json:"from,omitempty"`
	To    int64   `json:"to,omitempty"`
}

func optSexp(s *string) Sexp {
	if s == nil {
		return A("none")
	}
	return B(*s)
}

func (t c16Case) Req() Sexp {
	switch t.Op {
	case "timestamp":
		return L(A("timestamp"), B(t.Value), N(t.Def))
	case "timerange":
		return L(A("timerange"), N(t.Now), optSexp(t.Start), optSexp(t.End), optSexp(t.Since))
	}
	return L(A("step"), optSexp(t.Step), N(t.From), N(t.To))
}

// spellings of an instant (ns since epoch) in the four documented forms
func c16Spell(r *rand.Rand, ns int64) string {
	sec, frac := ns/1e9, ns%1e9
	switch r.Intn(4) {
	case 0:
		if frac == 0 {
			return strconv.FormatInt(sec, 10)
		}
	case 1:
		return strconv.FormatInt(ns, 10)
	case 2:
		if frac%1e6 == 0 {
			return fmt.Sprintf("%d.%03d", sec, frac/1e6)
		}
	}
	t := time.Unix(0, ns).UTC()
	if r.Intn(3) == 0 {
		t = t.In(time.FixedZone("", (r.Intn(27)-13)*3600))
	}
	return t.Format(time.RFC3339Nano)
}

func c16Instant(r *rand.Rand) int64 {
	// 2001 .. 2200, on a second / millisecond / nanosecond lattice
	sec := 978307200 + r.Int63n(6311433600)
	switch r.Intn(3) {
	case 0:
		return sec * 1e9
	case 1:
		return sec*1e9 + r.Int63n(1000)*1e6
	}
	return sec*1e9 + r.Int63n(1e9)
}

var c16BadTimes = []string{"x", "12x", "2024-13-01T00:00:00Z", "1.2.3", "--5", "2024-01-01", "99999999999999999999", "1e", ".", "T"}
var c16Durations = []string{"1s", "5m", "1h", "1d", "2w", "1y", "1h30m", "90s", "250ms", "1d12h", "0", "6h", "15m"}
var c16BadDurations = []string{"", "x", "1", "5", "1.5h", "m", "1h1h", "1s1m", "-5m", "5 m", "1H"}
var c16Steps = []string{"1", "15", "0.5", "2.25", "1s", "5m", "1h", "250ms", "1m30s", "1e1"}
var c16BadSteps = []string{"0", "-1", "-5s", "0s", "0ms", "NaN", "x", "", "1.5.2", "-0.5", "0.0"}

func c16Gen(r *rand.Rand) c16Case {
	p := func(s string) *string { return &s }
	switch r.Intn(3) {
	case 0:
		t := c16Case{Op: "timestamp", Def: c16Instant(r)}
		switch r.Intn(8) {
		case 0:
			t.Value = ""
		case 1:
			t.Value = pick(r, c16BadTimes)
		default:
			t.Value = c16Spell(r, c16Instant(r))
		}
		return t
	case 1:
		t := c16Case{Op: "timerange", Now: c16Instant(r)}
		if r.Intn(2) == 0 {
			ns := t.Now + (r.Int63n(7*86400)-5*86400)*1e9 // sometimes in the future
			t.End = p(c16Spell(r, ns))
		}
		if r.Intn(2) == 0 {
			t.Start = p(c16Spell(r, t.Now-r.Int63n(3*86400)*1e9))
		}
		if r.Intn(2) == 0 {
			t.Since = p(pick(r, c16Durations))
		}
		if r.Intn(10) == 0 {
			switch r.Intn(3) {
			case 0:
				t.Since = p(pick(r, c16BadDurations))
			case 1:
				t.End = p(pick(r, c16BadTimes))
			default:
				t.Start = p(pick(r, c16BadTimes))
			}
		}
		return t
	default:
		from := c16Instant(r)
		t := c16Case{Op: "step", From: from, To: from + r.Int63n(40*86400)*1e9 + r.Int63n(1e9)}
		if r.Intn(4) == 0 {
			t.To = from + r.Int63n(600)*1e9
		}
		switch r.Intn(4) {
		case 0:
		case 1:
			t.Step = p(pick(r, c16BadSteps))
		default:
			t.Step = p(pick(r, c16Steps))
		}
		return t
	}
}

func c16Impl(d *cliDriver) func(t c16Case) Sexp {
	return func(t c16Case) Sexp {
		r := d.Ask(t)
		switch {
		case r.Panic != "":
			return L(A("panic"))
		case r.Err != "":
			return L(A("err"))
		}
		if t.Op == "timerange" {
			return L(A("ok"), N(r.A), N(r.B))
		}
		return L(A("ok"), N(r.A))
	}
}

func init() {
	props["C15"] = func(c *Ctx) {
		c.Res.Rule = "case = render options (all 8 combinations of timestamp/container/colour, drawn uniformly; thorough: each case under all 8) x 0-40 streams (container label present/absent, two streams of one container) x 0-3 entries each with distinct nanosecond timestamps (interleaved across containers; exact duplicates allowed) and messages with embedded/trailing CR/LF, leading blanks, arbitrary bytes; rendered through the verif-tagged build of cmd/docker-logql; compared byte for byte with Render.render; non-trivial = at least 2 containers; distinct by request line"
		d := startCLI(c)
		spec := &Spec[c15Case]{
			What: "Render.render Gen.paletteIndex Gen.paletteLen == renderResult (cmd/docker-logql)",
			Gen:  c15Gen,
			Req:  func(t c15Case) Sexp { return t.Req() },
			Impl: c15Impl(d),
			Shrink: func(t c15Case) []c15Case {
				var out []c15Case
				for i := range t.Streams {
					x := t
					x.Streams = append(append([]c15Stream{}, t.Streams[:i]...), t.Streams[i+1:]...)
					out = append(out, x)
				}
				for i, s := range t.Streams {
					if len(s.Entries) > 1 {
						x := t
						x.Streams = append([]c15Stream{}, t.Streams...)
						x.Streams[i].Entries = s.Entries[:len(s.Entries)-1]
						out = append(out, x)
					}
				}
				return out
			},
			// rendering must succeed for any input: a panic is a violation even where the model
			// (whose palette index is regenerated from the code) predicts it
			Equal: func(t c15Case, impl, model Sexp) bool {
				return impl.Head() == "ok" && impl.String() == model.String()
			},
			Nontrivial: func(t c15Case, _ Sexp) bool { return len(t.Streams) >= 2 },
			Signature: func(t c15Case, impl, model Sexp) string {
				if impl.Head() == "panic" {
					return "panic"
				}
				return ""
			},
			Tags: func(t c15Case, impl Sexp) []string {
				return []string{fmt.Sprintf("c15:opts=%v/%v/%v", t.Timestamp, t.Container, t.Color), "c15:impl=" + impl.Head(),
					fmt.Sprintf("c15:containers>=8:%v", len(t.Streams) >= 8)}
			},
		}
		if c.Thorough() && c.ReplayIn == "" {
			var all []c15Case
			for i := 0; i < 20000; i++ {
				base := c15Gen(c.Rng)
				for m := 0; m < 8; m++ {
					x := base
					x.Timestamp, x.Container, x.Color = m&1 != 0, m&2 != 0, m&4 != 0
					all = append(all, x)
				}
			}
			RunCases(c, spec, loadCorpus[c15Case](c, spec.What))
			RunCases(c, spec, all)
			c.Res.ExhaustiveNote = "every generated result rendered under all 8 option combinations"
			return
		}
		RunSpec(c, spec, c.Scale(4000, 0))
	}
	props["C16"] = func(c *Ctx) {
		c.Res.Rule = "case = one of: parseTimestamp(value, default) with instants 2001-2200 on second/millisecond/nanosecond lattices in the four spellings (unix seconds, unix nanoseconds, fractional seconds, RFC3339 with zone offsets) or malformed text; parseTimeRange(now, start?, end?, since?) over all present/absent combinations with ends in the past and future and Prometheus durations (y w d h m s ms) or malformed ones; parseStep(step?, start, end) with plain seconds, Prometheus durations, zero/negative/NaN/malformed steps and ranges from seconds to 40 days; through the verif-tagged build of cmd/docker-logql; plus an exhaustive sweep of all 1000 millisecond fractions; non-trivial = a flag value is present; distinct by request line"
		d := startCLI(c)
		spec := &Spec[c16Case]{
			What: "Flags.parseTimestamp/parseTimeRange/parseStep == cmd/docker-logql params.go",
			Gen:  c16Gen,
			Req:  func(t c16Case) Sexp { return t.Req() },
			Impl: c16Impl(d),
			Nontrivial: func(t c16Case, _ Sexp) bool {
				return t.Value != "" || t.Start != nil || t.End != nil || t.Since != nil || t.Step != nil
			},
			Signature: func(t c16Case, impl, model Sexp) string { return "" },
			Tags: func(t c16Case, impl Sexp) []string {
				tags := []string{"c16:op=" + t.Op, "c16:impl=" + impl.Head()}
				if t.Op == "timerange" {
					tags = append(tags, fmt.Sprintf("c16:flags=start:%v,end:%v,since:%v", t.Start != nil, t.End != nil, t.Since != nil))
				}
				return tags
			},
		}
		RunSpec(c, spec, c.Scale(6000, 200000))
		if c.ReplayIn != "" {
			return
		}
		// all 1000 millisecond fractions for several seconds
		var ex []c16Case
		for _, sec := range []int64{978307200, 1700000000, 4102444800, 7258118399} {
			for ms := 0; ms < 1000; ms++ {
				ex = append(ex, c16Case{Op: "timestamp", Value: fmt.Sprintf("%d.%03d", sec, ms)})
				if ms%100 == 7 {
					ex = append(ex, c16Case{Op: "timestamp", Value: fmt.Sprintf("%d.%d", sec, ms)})
				}
			}
		}
		c.CountN("c16:exhaustive-millisecond-fractions", len(ex))
		RunCases(c, spec, ex)
		c.Res.ExhaustiveNote = "fractional spelling: all 1000 millisecond values for four seconds between 2001 and 2200"
		_ = strings.Join
	}
}
