package main

import (
	"encoding/json"
	"fmt"
	"go/ast"
	"go/parser"
	"go/token"
	"math/rand"
	"path/filepath"
	"regexp"
	"strconv"
	"strings"
	"sync"
	"time"
)

// C17: exploration for panics and hangs. Every case runs under recover + watchdog; the model side
// only states what a model can carry (totality / termination of the modelled control flow).
type c17Case struct {
	Query string `json:"query"`
	Recs  []LRec `json:"recs"`
	Start int64  `json:"start"`
	End   int64  `json:"end"`
	Step  int64  `json:"step"`
}

var c17Hostile = []string{
	"", "\x00", "\xff\xfe\xfd", strings.Repeat("[", 2000), strings.Repeat("{\"a\":", 500), `{"a":` + strings.Repeat("9", 400) + `}`,
	`{"a":1e999999}`, `{"a":-0.0e-999999}`, `{"a":"\ud800"}`, `{"_entry":{"x":1}}`, `{"a":"` + strings.Repeat("x", 5000) + `"}`,
	`a="unterminated`, `=`, `====`, `a=b=c=d`, strings.Repeat("k=v ", 500), "\x1b[" + strings.Repeat("9;", 300) + "m", "\x1b[\x1b[\x1b[",
	"1.2.3.4.5.6.7.8", "::::::::", "ffff:ffff:ffff:ffff:ffff:ffff:ffff:ffff:ffff", "999999999999999999999999", "1e309", "-1e309", "NaN", "Inf",
	"9223372036854775807", "18446744073709551616", "1y1y1y", "999999999999h", "5" + strings.Repeat("0", 40) + "KB", "{{", "{{.a}}", "<a><b>", "%s%n%x",
}

// c17JSON: an arbitrary JSON value (every kind at every position, incl. null / empty containers inside
// arrays and objects), nothing canonical about it: C17 compares nothing with the model
func c17JSON(r *rand.Rand, depth int) string {
	k := r.Intn(9)
	if depth <= 0 && k >= 6 {
		k = r.Intn(6)
	}
	switch k {
	case 0:
		return "null"
	case 1:
		return pick(r, []string{"true", "false"})
	case 2:
		return pick(r, []string{"0", "-1", "42", "2.5", "1e3", "-0.0", "9223372036854775808", "1e-400"})
	case 3, 4, 5:
		return fmt.Sprintf("%q", pick(r, append(lgValues, "", "é", "a\"b")))
	case 6, 7:
		n := r.Intn(4)
		parts := make([]string, n)
		for i := range parts {
			parts[i] = c17JSON(r, depth-1)
		}
		return "[" + strings.Join(parts, ",") + "]"
	default:
		n := r.Intn(4)
		parts := make([]string, n)
		for i := range parts {
			parts[i] = fmt.Sprintf("%q:%s", pick(r, []string{"a", "b", "lvl", "n", "tags", "x y", "_entry", ""}), c17JSON(r, depth-1))
		}
		return "{" + strings.Join(parts, ",") + "}"
	}
}

func c17Recs(r *rand.Rand) []LRec {
	n := r.Intn(6)
	recs := make([]LRec, n)
	ts := mT0 * 1e9
	for i := range recs {
		ts += int64(r.Intn(3)) * 1e9
		body := pick(r, c17Hostile)
		switch r.Intn(5) {
		case 0:
			body = genJSONLine(r)
		case 4:
			body = c17JSON(r, 3)
			if body[0] != '{' && r.Intn(2) == 0 {
				body = `{"a":` + body + `}`
			}
		case 1:
			body = genLogfmtLine(r)
		case 2:
			b := make([]byte, r.Intn(40))
			for j := range b {
				b[j] = byte(r.Intn(256))
			}
			body = string(b)
		}
		rec := LRec{TS: ts, Body: body}
		for _, l := range distinctStrings(r, append(lgLabels, "v", "sz", "dur"), r.Intn(4)) {
			rec.Attrs = append(rec.Attrs, [2]string{l, pick(r, append(lgValues, c17Hostile[r.Intn(len(c17Hostile))]))})
		}
		recs[i] = rec
	}
	return recs
}

func c17Mutate(r *rand.Rand, q string) string {
	toks := strings.Fields(q)
	if len(toks) == 0 {
		return q
	}
	i := r.Intn(len(toks))
	switch r.Intn(4) {
	case 0:
		toks = append(toks[:i], toks[i+1:]...)
	case 1:
		toks[i] = pick(r, []string{"|", "|=", "(", ")", "[", "]", "{", "}", "by", "without", "unwrap", "offset", "bool", "on", ",", "==", "5m", "5KB", `"x"`, "`raw`", "sum", "ip", "-", "--flag", "#c", "1e999", "0x10", "label_replace"})
	case 2:
		toks = append(toks[:i], append([]string{pick(r, []string{"(", ")", "|", ",", "or", "and", "^", "vector(1)", `"`, "'", "\\"})}, toks[i:]...)...)
	default:
		j := r.Intn(len(toks))
		toks[i], toks[j] = toks[j], toks[i]
	}
	return strings.Join(toks, " ")
}

var c17NumRe = regexp.MustCompile(`[0-9]+(?:\.[0-9]+)?(ns|us|ms|s|m|h|d|w)?\b`)

// c17Extreme replaces one or two numeric literals of the query (aggregation parameters, vector values,
// comparison operands, ranges, offsets) by boundary values of their kind: the parser accepts many of them
// (any k in 1..MaxInt64 for topk, any float for quantile, ranges up to the int64 nanosecond limit) and the
// engine then computes, allocates and loops with them.
func c17Extreme(r *rand.Rand, q string) string {
	locs := c17NumRe.FindAllStringSubmatchIndex(q, -1)
	if len(locs) == 0 {
		return q
	}
	for i, n := 0, 1+r.Intn(2); i < n; i++ {
		locs = c17NumRe.FindAllStringSubmatchIndex(q, -1)
		if len(locs) == 0 {
			break
		}
		m := locs[r.Intn(len(locs))]
		var repl string
		if m[2] >= 0 { // a duration
			repl = pick(r, []string{"9223372036s", "9223372037s", "2562047h", "106751d", "15250w", "1ns", "0s", "9223372036854775807ns", "1h30m", "999999999999999999999h"})
		} else {
			repl = pick(r, []string{"9223372036854775807", "9223372036854775806", "4611686018427387904", "2147483648", "4294967296", "1099511627776", "0", "1", "1e308", "1e-320", "0.9999999999999999", "1.0000000000000002", "9223372036854775808", "1e19", "NaN", "Inf", "00", "1_0"})
		}
		q = q[:m[0]] + repl + q[m[1]:]
	}
	return q
}

var c17Funcs = []string{"ToLower", "ToUpper", "Replace", "Trim", "TrimLeft", "TrimRight", "TrimPrefix", "TrimSuffix", "TrimSpace", "regexReplaceAll",
	"regexReplaceAllLiteral", "count", "urldecode", "urlencode", "bytes", "duration", "duration_seconds", "unixEpochMillis", "unixEpochNanos", "toDateInZone",
	"unixToTime", "alignLeft", "alignRight", "b64enc", "b64dec", "lower", "upper", "title", "trunc", "substr", "contains", "hasPrefix", "hasSuffix", "indent", "nindent",
	"replace", "repeat", "trim", "trimAll", "trimSuffix", "trimPrefix", "int", "float64", "add", "sub", "mul", "div", "mod", "addf", "subf", "mulf", "divf", "max", "min",
	"maxf", "minf", "ceil", "floor", "round", "fromJson", "date", "toDate", "now", "unixEpoch", "default", "__timestamp__", "__line__", "printf", "index", "len", "slice", "html", "js", "call"}

var c17Args = []string{`.a`, `.missing`, `__line__`, `__timestamp__`, `""`, `"x"`, `"("`, `"[a-"`, `"%zz"`, `"2006-01-02"`, `"abc"`, `"1700000000"`, `"17000000001700000000"`, `"99999"`, `"Nowhere/Zone"`,
	`0`, `1`, `-1`, `3`, `65`, `-9223372036854775808`, `9223372036854775807`, `1e300`, `0.0`, `2.5`, `true`, `nil`, `(now)`, `(div 1 0)`, `(int "x")`, `(fromJson "{")`, `(unixToTime "1700000000")`}

// c17Template: 1-3 actions, each a call of a template function with 0-4 arguments drawn without regard to the
// function's signature (small repeat/pad counts only: a huge count is a legitimate request for a huge string)
// c17FuncsFromSource reads the names a template may call off internal/logql/logqlengine/template.go: the keys
// of the FuncMap literal, the names assigned to funcMap[...] and the string elements of the sprig name list.
// A function added to the code is thereby called by this family without anyone editing the list above.
func c17FuncsFromSource() ([]string, error) {
	fset := token.NewFileSet()
	f, err := parser.ParseFile(fset, filepath.Join(repoDir, "internal/logql/logqlengine/template.go"), nil, 0)
	if err != nil {
		return nil, err
	}
	seen := map[string]bool{}
	var out []string
	add := func(lit ast.Expr) {
		if b, ok := lit.(*ast.BasicLit); ok && b.Kind == token.STRING {
			if s, err := strconv.Unquote(b.Value); err == nil && s != "" && !seen[s] {
				seen[s] = true
				out = append(out, s)
			}
		}
	}
	ast.Inspect(f, func(n ast.Node) bool {
		switch x := n.(type) {
		case *ast.CompositeLit:
			for _, e := range x.Elts {
				if kv, ok := e.(*ast.KeyValueExpr); ok {
					add(kv.Key)
				} else {
					add(e)
				}
			}
		case *ast.IndexExpr:
			add(x.Index)
		}
		return true
	})
	if len(out) < 20 {
		return nil, fmt.Errorf("only %d names found", len(out))
	}
	return out, nil
}

var c17FuncsOnce sync.Once

func c17Template(r *rand.Rand) string {
	c17FuncsOnce.Do(func() {
		if names, err := c17FuncsFromSource(); err == nil {
			have := map[string]bool{}
			for _, n := range c17Funcs {
				have[n] = true
			}
			for _, n := range names {
				if !have[n] {
					c17Funcs = append(c17Funcs, n)
				}
			}
		}
	})
	var sb strings.Builder
	for i, n := 0, 1+r.Intn(3); i < n; i++ {
		sb.WriteString(pick(r, []string{"", "x ", "%"}))
		sb.WriteString("{{ ")
		sb.WriteString(pick(r, c17Funcs))
		for j, m := 0, r.Intn(5); j < m; j++ {
			sb.WriteString(" ")
			sb.WriteString(pick(r, c17Args))
		}
		if r.Intn(4) == 0 {
			sb.WriteString(" | " + pick(r, c17Funcs))
		}
		sb.WriteString(" }}")
	}
	return sb.String()
}

func c17Gen(r *rand.Rand) c17Case {
	t := c17Case{Recs: c17Recs(r)}
	var q string
	switch r.Intn(3) {
	case 0:
		lc := genLogCase(r, allStageKinds, 4, 0)
		q = logQueryText(lc.Sel, lc.Stages)
	case 1:
		mc := MetricCase{E: *genVagg(r, 2, func() *MExpr { return genRangeExpr(r, false) })}
		if r.Intn(2) == 0 {
			mc.E = MExpr{Kind: "bin", Op: pick(r, c13Ops), A: genRangeExpr(r, false), B: &MExpr{Kind: "vector", Val: "2"}}
		}
		if r.Intn(5) == 0 {
			// parameters at the boundaries the parser lets through, over a selector that matches everything
			inner := &MExpr{Kind: "range", Op: pick(r, []string{"count_over_time", "rate", "bytes_over_time"}), RangeS: pick(r, []int64{5, 60, 3600})}
			switch r.Intn(3) {
			case 0:
				mc.E = MExpr{Kind: "vagg", Op: pick(r, []string{"topk", "bottomk"}), A: inner,
					Param: pick(r, []string{"9223372036854775807", "9223372036854775806", "4611686018427387904", "1099511627776", "4294967296", "2147483648", "1"})}
			case 1:
				mc.E = MExpr{Kind: "range", Op: "quantile_over_time", RangeS: 60, Unwrap: &MUnwrap{Label: "v"},
					Param: pick(r, []string{"0", "1", "0.9999999999999999", "1e-320", "0.5"})}
			default:
				mc.E = MExpr{Kind: "bin", Op: pick(r, c13Ops), A: inner, B: &MExpr{Kind: "vector", Val: pick(r, []string{"1e308", "1e-320", "0", "9223372036854775807"})}}
			}
		}
		q = mc.E.Text()
	default:
		b := make([]byte, r.Intn(30))
		for j := range b {
			const alpha = "{}|=~!\"()[],.abcxyz0159 \\`<>+-*/%^#\n\t\x00\xff"
			b[j] = alpha[r.Intn(len(alpha))]
		}
		q = string(b)
	}
	if r.Intn(3) == 0 {
		for i, n := 0, 1+r.Intn(2); i < n; i++ {
			q = c17Mutate(r, q)
		}
	}
	if r.Intn(4) == 0 {
		q = c17Extreme(r, q)
	}
	if r.Intn(8) == 0 {
		// templates over the whole function map of template.go (sprig included), with arguments of the wrong
		// kind, sign or size: text/template turns a panicking function into an error; nothing may escape
		q = "{} | " + pick(r, []string{"line_format", "label_format x="}) + " " + strconv.Quote(c17Template(r))
		if r.Intn(3) == 0 {
			q = "count_over_time(" + q + " [1m])"
		}
	}
	if r.Intn(8) == 0 {
		// the user mistakes the property names: bad regex, template, pattern, JSON path, each inside otherwise
		// valid syntax (the string literal is well-formed, its content is not)
		bad := func(xs []string) string { return strconv.Quote(pick(r, xs)) }
		regexes := []string{"(", "[a-", "a{2,1}", "\\", "(?P<x>a)(?P<x>b)", "(?P<1>a)", "*", "a**", "(?i", "\\p{Nope}", "[[:nope:]]", "x{1001}", "(?P<a b>c)", strings.Repeat("(", 1200) + strings.Repeat(")", 1200)}
		paths := []string{"", ".", "[", "[1", "a..b", "a[", "[\"x", "[\"a\\\"]", "[99999999999999999999]", "a.[0]", "[-1]", "a b", "\u00e9", "[\"\\u00e9\"]", "a[0][1].b.c", "[0", "a]", "[\"\\q\"]", "9a", "a.9"}
		patterns := []string{"", "<", "<_", "<a><b>", "<a", "a>", "<>", "<a> <a>", "<_>", "<a b>", "<1>", "<a>x<b>x<c>", strings.Repeat("<a>", 300)}
		templates := []string{"{{", "{{ .a", "{{ nofunc 1 }}", "{{ .a | }}", "{{ if }}", "{{ end }}", "{{ range .a }}", "{{ template \"x\" }}", "{{ define \"x\" }}{{ end }}", "{{ . }}", "{{ $x := 1 }}{{ $x }}", "{{ with .a }}{{ . }}{{ end }}", "{{ call .a }}", "{{ index .a 1 }}", "{{ printf \"%d\" .a }}"}
		switch r.Intn(7) {
		case 0:
			q = "{a=~" + bad(regexes) + "}"
		case 1:
			q = "{} |~ " + bad(regexes)
		case 2:
			q = "{} | regexp " + bad(regexes)
		case 3:
			q = "{} | json x=" + bad(paths) + pick(r, []string{"", ", y=" + bad(paths)})
		case 4:
			q = "{} | pattern " + bad(patterns)
		case 5:
			q = "{} | " + pick(r, []string{"line_format ", "label_format x="}) + bad(templates)
		default:
			q = "{} | a =~ " + bad(regexes) + pick(r, []string{"", " | keep a=~" + bad(regexes), " | drop a=~" + bad(regexes)})
		}
		if r.Intn(3) == 0 {
			q = pick(r, []string{"count_over_time(", "sum(rate("}) + q + " [1m])" + pick(r, []string{"", ")"})
		}
	}
	t.Query = q
	// documents of the kind the query's parser stage reads
	if strings.Contains(q, "json") || strings.Contains(q, "unpack") {
		for i := range t.Recs {
			if r.Intn(2) == 0 {
				t.Recs[i].Body = c17JSON(r, 3)
				if t.Recs[i].Body[0] != '{' {
					t.Recs[i].Body = `{"a":` + t.Recs[i].Body + `,"tags":` + c17JSON(r, 2) + `}`
				}
			}
		}
	}
	start := mT0 + int64(r.Intn(5))
	if r.Intn(2) == 0 {
		t.Start, t.End, t.Step = start*1e9, start*1e9, 0
	} else {
		step := pick(r, []int64{1e9, 2e9, 250e6, 60e9})
		t.Start, t.End, t.Step = start*1e9, start*1e9+int64(r.Intn(20))*step, step
	}
	return t
}

func init() {
	props["C17"] = func(c *Ctx) {
		c.Res.Rule = "exploration: query = grammar-derived log or metric query (all stage kinds, aggregations, binary operations), 0-2 token-level mutations (deletion, substitution, insertion, swap), or random bytes; logs = hostile contents (deep/truncated JSON, arbitrary JSON documents with every value kind at every position, extreme and malformed numbers, huge integers, lone surrogates, malformed logfmt, long SGR sequences, many-dotted and colon runs, invalid UTF-8, long lines) and label values; boundary values for aggregation parameters, literals, ranges and offsets; templates calling every function of the template function map (sprig included) with arguments of the wrong kind, sign or size; instant or positive-step parameters; every evaluation under recover() and a 10 s watchdog; a case counts as non-trivial when evaluation gets past parsing; nothing is compared with the model except that no panic and no timeout occurs"
		spec := &Spec[c17Case]{
			What: "Engine.Eval terminates without panic (recover + watchdog)",
			Gen:  c17Gen,
			Req:  func(t c17Case) Sexp { return L(A("noop")) },
			Impl: func(t c17Case) Sexp {
				mq := &mockQuerier{recs: t.Recs}
				_, err := evalQuery(mq, t.Query, t.Start, t.End, time.Duration(t.Step), -1)
				if err != nil {
					return L(A("err"), A(errClassOf(err)))
				}
				return L(A("ok"))
			},
			Equal: func(t c17Case, impl, model Sexp) bool {
				h := impl.Head()
				return h != "panic" && h != "timeout"
			},
			Shrink: func(t c17Case) []c17Case {
				var out []c17Case
				for i := range t.Recs {
					x := t
					x.Recs = append(append([]LRec{}, t.Recs[:i]...), t.Recs[i+1:]...)
					out = append(out, x)
				}
				toks := strings.Fields(t.Query)
				for i := range toks {
					x := t
					x.Query = strings.Join(append(append([]string{}, toks[:i]...), toks[i+1:]...), " ")
					out = append(out, x)
				}
				return out
			},
			Nontrivial: func(t c17Case, impl Sexp) bool {
				return impl.Head() == "ok" || (impl.Head() == "err" && impl.List[1].Atom != "parse")
			},
			Signature: func(t c17Case, impl, model Sexp) string { return impl.Head() },
			Tags: func(t c17Case, impl Sexp) []string {
				tag := impl.Head()
				if tag == "err" {
					tag += ":" + impl.List[1].Atom
				}
				return []string{"c17:outcome=" + tag, fmt.Sprintf("c17:records=%d", len(t.Recs))}
			},
			Key: func(t c17Case) string {
				b, _ := json.Marshal(t)
				return string(b)
			},
			Timeout: 10 * time.Second,
		}
		RunSpec(c, spec, c.Scale(6000, 300000))
	}
}
