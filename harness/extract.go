package main

import (
	"flag"
	"os"
)

// extractCmd regenerates lean/Verif/Gen/*.lean from the current /repo tree.
func extractCmd(args []string) {
	fs := flag.NewFlagSet("extract", flag.ExitOnError)
	out := fs.String("out", "", "output directory")
	repo := fs.String("repo", "/repo", "repository root")
	_ = fs.Parse(args)
	if err := os.MkdirAll(*out, 0o755); err != nil {
		fatal("extract: %v", err)
	}
	for _, g := range generators {
		g(*out, *repo)
	}
}

// generators write one Gen/*.lean file each.
var generators []func(outDir, repo string)
