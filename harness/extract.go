package main

import (
	"flag"
	"fmt"
	"os"
	"path/filepath"
	"strings"
)

// extractCmd regenerates lean/Verif/Gen/*.lean from the current /repo tree.
func extractCmd(args []string) {
	fs := flag.NewFlagSet("extract", flag.ExitOnError)
	out := fs.String("out", "", "output directory")
	repo := fs.String("repo", "/repo", "repository root")
	_ = fs.Parse(args)
	if err := os.MkdirAll(*out, 0o755); err != nil {
		fatal("extract: %v", err)
	}
	// every generator runs on its own: one that can no longer read its fact off the tree is reported in
	// FAILED.txt (one line per generator: the files it would have written, then the reason) and leaves
	// its files unwritten; the others still regenerate theirs
	var failed []string
	for i, g := range generators {
		func() {
			extracting = true
			defer func() {
				extracting = false
				if r := recover(); r != nil {
					msg := fmt.Sprint(r)
					if ef, ok := r.(extractFailure); ok {
						msg = ef.msg
					}
					failed = append(failed, generatorFiles[i]+"\t"+strings.ReplaceAll(msg, "\n", " "))
				}
			}()
			g(*out, *repo)
		}()
	}
	if len(failed) > 0 {
		_ = os.WriteFile(filepath.Join(*out, "FAILED.txt"), []byte(strings.Join(failed, "\n")+"\n"), 0o644)
	}
}

// generatorFiles[i]: the Gen files of generators[i] (comma separated), in registration order
var generatorFiles []string

// generators write one Gen/*.lean file each.
var generators []func(outDir, repo string)
