package main

import (
	"fmt"
	"math/rand"
	"sort"
)

func logSpec(what string, kinds []string, maxStages, maxRecs int, nontrivial func(LogCase, Sexp) bool, prefix string) *Spec[LogCase] {
	return &Spec[LogCase]{
		What:       what,
		Gen:        func(r *rand.Rand) LogCase { return genLogCase(r, kinds, maxStages, maxRecs) },
		Req:        func(t LogCase) Sexp { return t.Req() },
		Impl:       func(t LogCase) Sexp { return logImpl(t, false) },
		Shrink:     shrinkLogCase,
		Nontrivial: nontrivial,
		Tags:       func(t LogCase, impl Sexp) []string { return logTags(prefix, t, impl) },
	}
}

// logStageBlame decides whether a disagreement is due to the stages the property is about: the case is
// re-evaluated with every other stage removed; if implementation and model then agree, the disagreement
// was inherited from a stage that is another property's business (reported as no-failing-input-found)
func logStageBlame(c *Ctx, relevant ...string) func(t LogCase, impl, model Sexp) bool {
	rel := map[string]bool{}
	for _, k := range relevant {
		rel[k] = true
	}
	return func(t LogCase, impl, model Sexp) bool {
		if h := impl.Head(); h == "panic" || h == "timeout" {
			return true
		}
		t2 := t
		t2.Stages = nil
		for _, st := range t.Stages {
			if rel[st.Kind] {
				t2.Stages = append(t2.Stages, st)
			}
		}
		if len(t2.Stages) == len(t.Stages) {
			return true
		}
		fixAmbiguity(t2.Stages)
		mm, err := c.Drv.Ask(t2.Req())
		if err != nil {
			return true
		}
		if logImpl(t2, false).String() != mm.String() {
			return true
		}
		return suffixBlame(c, rel, t)
	}
}

// suffixBlame is the second classifier: a failure of the property's stages may need a state that only
// another kind of stage produces (a parser error left behind by `| json`, say).  The stages up to the last
// one that is NOT the property's business are evaluated by the implementation itself, its answer (lines
// and full label sets, __error_details__ included) becomes the input, and the remaining stages — all the
// property's own — are compared on it.  A disagreement there is the property's, with that input.
func suffixBlame(c *Ctx, rel map[string]bool, t LogCase) bool {
	k := -1
	for i, st := range t.Stages {
		if !rel[st.Kind] {
			k = i
		}
	}
	if k < 0 || k == len(t.Stages)-1 {
		return false
	}
	tp := t
	tp.Stages, tp.Limit = t.Stages[:k+1], -1
	mq := &mockQuerier{capsLabel: tp.CapsLabel, capsLine: tp.CapsLine, recs: tp.Recs, shareAttrs: tp.Share}
	data, err := evalQuery(mq, logQueryText(tp.Sel, tp.Stages), 1, 1<<62, 0, -1)
	if err != nil {
		return false
	}
	var recs []LRec
	for _, s := range data.StreamsResult.Result {
		for _, e := range s.Values {
			rec := LRec{TS: int64(e.T), Body: e.V}
			if msg, ok := s.Stream.Value["msg"]; (ok && msg != e.V) || (!ok && e.V != "") {
				return false // the body label and the line went apart: not expressible as an input record
			}
			var keys []string
			for l := range s.Stream.Value {
				if l != "msg" {
					keys = append(keys, l)
				}
			}
			sort.Strings(keys)
			for _, l := range keys {
				rec.Attrs = append(rec.Attrs, [2]string{l, s.Stream.Value[l]})
			}
			recs = append(recs, rec)
		}
	}
	sort.SliceStable(recs, func(i, j int) bool { return recs[i].TS < recs[j].TS })
	ts := LogCase{Stages: append([]LStage{}, t.Stages[k+1:]...), Recs: recs, Limit: -1}
	fixAmbiguity(ts.Stages)
	mm, err := c.Drv.Ask(ts.Req())
	if err != nil {
		return false
	}
	if logImpl(ts, false).String() != mm.String() {
		return true
	}
	// ...and against the implementation's own answer for the whole pipeline: what the prefix left behind may be
	// more than its printed labels say (`| json` leaves numbers and booleans typed), and the property's stages
	// must treat such a value like its text
	full := t
	full.Limit = -1
	return logImpl(full, false).String() != mm.String()
}

// c08PartitionFails states C08's partition clause on the implementation alone and within ONE run: the query
// is extended by `| line_format "{{ . }}"`, which replaces every line by the printed label map the entry
// carries at the end of the pipeline (grouping is by labels, so the streams are the same); every entry must
// then sit in the stream whose label map prints to exactly its line, and no label set may head two streams.
// True = the implementation's own answer contradicts itself.  (No assumption about the stages: a stage that
// computes wrong labels, statefully or not, still leaves a correct partition of what it computed.)
func c08PartitionFails(t LogCase, impl Sexp) bool {
	if impl.Head() != "ok" {
		return false
	}
	text := logQueryText(t.Sel, t.Stages) + ` | line_format "{{ . }}"`
	mq := &mockQuerier{capsLabel: t.CapsLabel, capsLine: t.CapsLine, recs: t.Recs, shareAttrs: t.Share}
	data, err := evalQuery(mq, text, 1, 1<<62, 0, -1)
	if err != nil {
		return false
	}
	heads := map[string]bool{}
	for _, st := range data.StreamsResult.Result {
		ls := fmt.Sprint(map[string]string(st.Stream.Value))
		if heads[ls] {
			return true
		}
		heads[ls] = true
		for _, e := range st.Values {
			if e.V != ls {
				return true
			}
		}
	}
	return false
}

// streamLabelCount: total number of labels other than msg over all streams of a result.
func resultStats(impl Sexp) (streams, maxPerStream, labels int) {
	if impl.Head() != "ok" {
		return
	}
	for _, st := range impl.Args() {
		streams++
		if n := len(st.List) - 2; n > maxPerStream {
			maxPerStream = n
		}
		labels += len(st.List[1].List)
	}
	return
}

func init() {
	props["C06"] = func(c *Ctx) {
		c.Res.Rule = "case = one or two parser stages (json all/field list/path expressions, logfmt all/field list/renamed keys, regexp with named groups, pattern, unpack), optionally followed by a label filter, over lines generated as documents: JSON objects (duplicate keys, nulls, nested values, escapes, ints, decimals, random whitespace), logfmt records (bare keys, quoted values, escapes), packed entries, delimiter lines; 1/6 malformed (truncation, single-byte corruption, int64 overflow, logfmt syntax errors); pre-existing labels collide with extracted ones; non-trivial = at least one entry carries a label beyond msg or an __error__ label; distinct by request line"
		kinds := []string{"json", "json", "logfmt", "logfmt", "regexp", "pattern", "unpack"}
		spec := logSpec("parser stages: LogQL.Stage.apply (json/logfmt/regexp/pattern/unpack) == Engine.Eval", kinds, 2, 8,
			func(t LogCase, impl Sexp) bool {
				n, e := logResultCount(impl)
				_, _, labels := resultStats(impl)
				return n > 0 && (labels > n || e)
			}, "c06")
		gen := spec.Gen
		spec.Gen = func(r *rand.Rand) LogCase {
			t := gen(r)
			t.Sel, t.CapsLabel, t.CapsLine, t.Limit = nil, nil, nil, -1
			if len(t.Stages) == 0 {
				t.Stages = []LStage{genStage(r, pick(r, kinds))}
				t.Recs = genRecs(r, t.Stages, 8)
			}
			if r.Intn(3) == 0 {
				t.Stages = append(t.Stages, genStage(r, "lblf"))
			}
			return t
		}
		spec.PropertyFails = logStageBlame(c, "json", "logfmt", "regexp", "pattern", "unpack")
		RunSpec(c, spec, c.Scale(5000, 200000))
	}
	props["C07"] = func(c *Ctx) {
		c.Res.Rule = "case = 1-3 rewriting stages (label_format with rename chains/swaps and templates incl. a failing one, line_format, drop/keep with bare names and value matchers, decolorize) optionally after a parser stage (an eighth: drop/keep value matchers against typed json values; a tenth: parser error, drop __error__, then a failing template), over label sets of 0-4 labels and lines incl. SGR-coloured ones; evaluated from query text (so the parser's choice of rename source/target is observed); non-trivial = the stage changes the label set or the line of some record (result differs from the input records) ; distinct by request line"
		kinds := []string{"lblfmt", "lblfmt", "linefmt", "drop", "keep", "decolorize"}
		spec := logSpec("rewriting stages: LogQL.Stage.apply (label_format/line_format/drop/keep/decolorize) == Engine.Eval", kinds, 3, 8,
			func(t LogCase, impl Sexp) bool {
				n, _ := logResultCount(impl)
				return n > 0 && len(t.Stages) > 0
			}, "c07")
		gen := spec.Gen
		spec.Gen = func(r *rand.Rand) LogCase {
			t := gen(r)
			t.Sel, t.CapsLabel, t.CapsLine, t.Limit = nil, nil, nil, -1
			if len(t.Stages) == 0 {
				t.Stages = []LStage{genStage(r, pick(r, kinds))}
			}
			if r.Intn(4) == 0 {
				t.Stages = append([]LStage{genStage(r, pick(r, []string{"logfmt", "json"}))}, t.Stages...)
			}
			fixAmbiguity(t.Stages)
			t.Recs = genRecs(r, t.Stages, 8)
			if r.Intn(10) == 0 {
				// a template (or rename) rewriting a label that lives in an attribute map shared by the records: every
				// record is rewritten from the value the storage delivered, not from what the previous record left
				l := pick(r, []string{"a", "c", "lvl"})
				t.Share = true
				st := LStage{Kind: "lblfmt", Tpls: []LTplLabel{{Dst: l, T: []TplPart{{Kind: "field", Text: l}, {Kind: "lit", Text: "-x"}}}}}
				if r.Intn(3) == 0 {
					st = LStage{Kind: "lblfmt", Renames: [][2]string{{l, "zz"}}}
				}
				t.Stages = []LStage{st}
				for i := range t.Recs {
					t.Recs[i].Attrs = [][2]string{{l, "x"}, {"zz", "1"}}
				}
			} else if r.Intn(10) == 0 {
				// a failing template on a record that already went through an error: the parser stage flags the line,
				// `drop __error__` (or keep without it) removes the flag but not the details, then the template fails and
				// must flag the line again
				fail := []TplPart{{Kind: "lit", Text: "x"}, {Kind: "fail"}}
				last := LStage{Kind: "linefmt", Tpl: fail}
				if r.Intn(2) == 0 {
					last = LStage{Kind: "lblfmt", Tpls: []LTplLabel{{Dst: "dst", T: fail}}}
				}
				t.Stages = []LStage{{Kind: pick(r, []string{"json", "logfmt"})}, {Kind: "drop", Labels: []string{pick(r, []string{"__error__", "__error__", "__error_details__"})}}, last}
				for i := range t.Recs {
					t.Recs[i].Body = pick(r, []string{"not json", `{"a":1`, `a="unterminated`, `{"a":"ok"}`, "a=ok"})
				}
			} else if r.Intn(8) == 0 {
				// value matchers of drop/keep against typed label values: `| json` leaves numbers and booleans typed;
				// a matcher sees their text (200, 2.5, true) like the text of a string member
				st := LStage{Kind: pick(r, []string{"drop", "keep"})}
				for _, l := range distinctStrings(r, []string{"n", "ok", "f", "s"}, 1+r.Intn(2)) {
					st.Matchers = append(st.Matchers, LMatcher{Label: l, Op: pick(r, []string{"eq", "ne"}), Value: pick(r, []string{"200", "1", "true", "false", "2.5", "u", ""})})
				}
				t.Stages = []LStage{{Kind: "json"}, st}
				for i := range t.Recs {
					t.Recs[i].Body = fmt.Sprintf(`{"n":%s,"ok":%s,"f":%s,"s":%q}`, pick(r, []string{"200", "1", `"200"`, `"1"`}), pick(r, []string{"true", "false", `"true"`}), pick(r, []string{"2.5", "1", `"2.5"`}), pick(r, []string{"u", "200", ""}))
				}
			}
			return t
		}
		spec.PropertyFails = logStageBlame(c, "lblfmt", "linefmt", "drop", "keep", "decolorize")
		RunSpec(c, spec, c.Scale(5000, 200000))
	}
	props["C08"] = func(c *Ctx) {
		c.Res.Rule = "case = log query whose stages add, remove or rewrite labels (logfmt, label_format, drop, keep, label filters) x 0-12 records with equal timestamps and label values that differ only in characters Quote escapes (a sixth of the cases: `| json` then drop msg / keep over JSON bodies that differ only in number, boolean and string members, i.e. in typed label values) x limit in {-1,0,1,2,N-1,N,N+1}; compared: partition into streams by final label set, per-stream time order, entry count, prefix under limit; non-trivial = at least 2 streams and a stream with at least 2 entries; distinct by request line"
		kinds := []string{"logfmt", "lblfmt", "drop", "keep", "lblf", "lf", "json"}
		spec := logSpec("grouping and limit: LogQL.group/iterate == Engine.Eval", kinds, 3, 12,
			func(t LogCase, impl Sexp) bool {
				s, m, _ := resultStats(impl)
				return s >= 2 && m >= 2
			}, "c08")
		gen := spec.Gen
		tricky := []string{"a\"b", "a\\\"b", "a\nb", "a\\nb", "\xff", "\\xff", "a,b=\"c\"", "a", "a "}
		spec.Gen = func(r *rand.Rand) LogCase {
			t := gen(r)
			for i := range t.Recs {
				if r.Intn(2) == 0 {
					t.Recs[i].Attrs = append(t.Recs[i].Attrs, [2]string{"q", pick(r, tricky)})
				}
				if r.Intn(2) == 0 {
					t.Recs[i].Body = pick(r, []string{"x", "lvl=warn", "", "a=1"})
				}
			}
			// label sets whose unquoted rendering coincides: {q=x",r="y} vs {q=x, r=y}
			if len(t.Recs) >= 2 && r.Intn(4) == 0 {
				i, j := r.Intn(len(t.Recs)), r.Intn(len(t.Recs))
				if i != j {
					t.Recs[i].Attrs = [][2]string{{"q", "x\",r=\"y"}}
					t.Recs[j].Attrs = [][2]string{{"q", "x"}, {"r", "y"}}
					t.Recs[i].Body, t.Recs[j].Body = "x", "x"
				}
			}
			// a label_format template rewriting a label that comes from an attribute map SHARED by the records (one
			// map per container in the Docker backend): every record must be rewritten from the original value
			if r.Intn(8) == 0 {
				l := pick(r, []string{"a", "c", "lvl"})
				attrs := [][2]string{{l, "x"}, {"zz", "1"}}
				t.Share = true
				t.Sel, t.CapsLabel, t.CapsLine = nil, nil, nil
				t.Stages = []LStage{{Kind: "lblfmt", Tpls: []LTplLabel{{Dst: l, T: []TplPart{{Kind: "field", Text: l}, {Kind: "lit", Text: "-x"}}}}}}
				if r.Intn(2) == 0 {
					t.Stages = append(t.Stages, LStage{Kind: "drop", Labels: []string{"msg"}})
				}
				for i := range t.Recs {
					t.Recs[i].Attrs = attrs
				}
			}
			// typed labels: `| json` exposes numbers and booleans as typed values; records that differ
			// only in those (the body label dropped) must still fall into different streams
			if r.Intn(6) == 0 {
				attrs := [][2]string{}
				if r.Intn(2) == 0 {
					attrs = [][2]string{{"a", "x"}}
				}
				t.Stages = []LStage{{Kind: "json"}, {Kind: pick(r, []string{"drop", "drop", "keep"})}}
				if t.Stages[1].Kind == "drop" {
					t.Stages[1].Labels = []string{"msg"}
				} else {
					t.Stages[1].Labels = distinctStrings(r, []string{"n", "ok", "f", "s", "a"}, 2+r.Intn(3))
				}
				for i := range t.Recs {
					t.Recs[i].Attrs = attrs
					t.Recs[i].Body = fmt.Sprintf(`{"n":%d,"ok":%v,"f":%s,"s":%q}`, r.Intn(3), r.Intn(2) == 0, pick(r, []string{"1.5", "2.5", "1e3"}), pick(r, []string{"u", "u", "v"}))
				}
			}
			n := len(t.Recs)
			t.Limit = pick(r, []int{-1, -1, 0, 1, 2, n - 1, n, n + 1, -5})
			return t
		}
		spec.Tags = func(t LogCase, impl Sexp) []string {
			tags := logTags("c08", t, impl)
			s, _, _ := resultStats(impl)
			return append(tags, fmt.Sprintf("c08:streams=%d", min(s, 6)), fmt.Sprintf("c08:limit=%d", t.Limit))
		}
		// filters stay (the limit counts matching records); label-rewriting stages are C06/C07's business
		blame := logStageBlame(c, "lf", "lblf", "lfip")
		spec.PropertyFails = func(t LogCase, impl, model Sexp) bool {
			return c08PartitionFails(t, impl) || blame(t, impl, model)
		}
		RunSpec(c, spec, c.Scale(5000, 200000))
	}
}
