package main

import (
	"encoding/hex"
	"encoding/json"
	"fmt"
	"math/rand"
	"sort"

	"github.com/docker/docker/api/types"

	"github.com/tdakkota/docker-logql/internal/dockerlog"
)

// c18Case: an inventory with per-container logs and a query, evaluated end to end
// (fake Docker client -> dockerlog.Querier -> Engine.Eval -> renderResult) under every completion
// order of the concurrent opens and repeatedly.
type c18Case struct {
	Ctrs   []c18Ctr   `json:"ctrs"`
	Metric *MExpr     `json:"metric,omitempty"`
	Sel    []LMatcher `json:"sel,omitempty"`
	Stages []LStage   `json:"stages,omitempty"`
	Start  int64      `json:"start"`
	End    int64      `json:"end"`
	Step   int64      `json:"step"`
	Orders [][]int    `json:"orders"`
	// Limit of a log query (0: none); with equal timestamps in several containers the limit cuts inside
	// a tie, so the merge's tie-break (inventory order) is observable
	Limit int `json:"limit,omitempty"`
	Reps  int `json:"reps"`
}

type c18Ctr struct {
	Name   string      `json:"name"`
	Labels [][2]string `json:"labels,omitempty"`
	Recs   []LRec      `json:"recs"` // TS strictly increasing; globally distinct timestamps
}

// hasTies: two containers log at the same instant
func (t c18Case) hasTies() bool {
	seen := map[int64]bool{}
	for _, c := range t.Ctrs {
		for _, r := range c.Recs {
			if seen[r.TS] {
				return true
			}
			seen[r.TS] = true
		}
	}
	return false
}

func (t c18Case) queryText() string {
	if t.Metric != nil {
		return t.Metric.Text()
	}
	return logQueryText(t.Sel, t.Stages)
}

// records as the engine sees them after the merge: per-container labels + body, in time order
func (t c18Case) mergedRecs() []LRec {
	var out []LRec
	for i, c := range t.Ctrs {
		attrs := [][2]string{
			{"container", c.Name}, {"container_id", fmt.Sprintf("id%d", i)}, {"container_name", c.Name}, {"container_image", "img"},
			{"container_image_id", "sha"}, {"container_command", "run"}, {"container_created", "0"}, {"container_state", "running"}, {"container_status", "Up"},
		}
		for _, kv := range c.Labels {
			attrs = append(attrs, kv)
		}
		sort.Slice(attrs, func(a, b int) bool { return attrs[a][0] < attrs[b][0] })
		for _, r := range c.Recs {
			out = append(out, LRec{TS: r.TS, Body: r.Body, Attrs: attrs})
		}
	}
	sort.SliceStable(out, func(a, b int) bool { return out[a].TS < out[b].TS })
	return out
}

func (t c18Case) Req() Sexp {
	if t.Metric != nil {
		return L(A("metriceval"), t.Metric.Sexp(), recsSexp(t.mergedRecs()), N(t.Start), N(t.End), N(t.Step))
	}
	lim := int64(-1)
	if t.Limit > 0 {
		lim = int64(t.Limit)
	}
	return L(A("logeval"), capsSexp(nil, nil), logQuerySexp(t.Sel, t.Stages), recsSexp(t.mergedRecs()), N(lim))
}

func (t c18Case) fake(order []int) *fakeDocker {
	fd := &fakeDocker{Logs: map[string][]byte{}}
	for i, c := range t.Ctrs {
		id := fmt.Sprintf("id%d", i)
		labels := map[string]string{}
		for _, kv := range c.Labels {
			labels[kv[0]] = kv[1]
		}
		fd.Inventory = append(fd.Inventory, types.Container{ID: id, Names: []string{"/" + c.Name}, Image: "img", ImageID: "sha", Command: "run", State: "running", Status: "Up", Labels: labels})
		var b []byte
		for j, r := range c.Recs {
			b = append(b, c03Frame(c03Rec{TS: tsText(r.TS), Typ: byte(1 + j%2), Body: []byte(r.Body)})...)
		}
		fd.Logs[id] = b
	}
	for _, i := range order {
		// only containers the selector picks are opened: the completion order ranges over those
		if t.selected(i) {
			fd.Order = append(fd.Order, fmt.Sprintf("id%d", i))
		}
	}
	return fd
}

// selected: whether container i satisfies the (equality-only) selector of the case.
func (t c18Case) selected(i int) bool {
	c := t.Ctrs[i]
	ls := map[string]string{"container": c.Name, "container_name": c.Name, "container_id": fmt.Sprintf("id%d", i), "container_image": "img",
		"container_image_id": "sha", "container_command": "run", "container_created": "0", "container_state": "running", "container_status": "Up"}
	for _, kv := range c.Labels {
		ls[kv[0]] = kv[1]
	}
	for _, m := range t.Sel {
		switch m.Op {
		case "eq":
			if ls[m.Label] != m.Value {
				return false
			}
		case "ne":
			if ls[m.Label] == m.Value {
				return false
			}
		}
	}
	return true
}

func c18Gen(r *rand.Rand) c18Case {
	n := 1 + r.Intn(5)
	t := c18Case{Start: (mT0 - 5) * 1e9, End: (mT0 + 40) * 1e9, Reps: 3}
	ts := mT0 * 1e9
	names := []string{"web", "db", "cache", "web2", "proxy"}
	for i := 0; i < n; i++ {
		c := c18Ctr{Name: names[i]}
		for _, l := range distinctStrings(r, []string{"tier", "app", "c", "d"}, r.Intn(3)) {
			c.Labels = append(c.Labels, [2]string{l, pick(r, []string{"x", "y", "fe"})})
		}
		t.Ctrs = append(t.Ctrs, c)
	}
	ties := r.Intn(3) == 0
	for k, m := 0, r.Intn(14); k < m; k++ {
		inc := int64(1+r.Intn(3)) * 250000000
		if ties && r.Intn(2) == 0 {
			inc = 0 // the same instant in another container
		}
		ts += inc
		i := r.Intn(n)
		if rs := t.Ctrs[i].Recs; len(rs) > 0 && rs[len(rs)-1].TS >= ts {
			continue // within one container timestamps stay strictly increasing
		}
		t.Ctrs[i].Recs = append(t.Ctrs[i].Recs, LRec{TS: ts, Body: pick(r, []string{"error x", "info", "lvl=warn n=5", "x", "a=1", `{"a":"x","nested":{"k":1}}`, `{"nested":[1,2],"lvl":"warn"}`})})
	}
	if r.Intn(8) == 0 {
		// float folding: 3-5 containers in ONE group with rates k/10 (0.1, 0.2, 0.3, ...): the sum, mean and
		// deviation of such values depend on the order of the additions in the last bit, so any
		// dependence of that order on map iteration shows as two different answers to one query
		n = 3 + r.Intn(3)
		t.Ctrs = nil
		counts := r.Perm(6)
		for i := 0; i < n; i++ {
			c := c18Ctr{Name: names[i]}
			if r.Intn(3) == 0 {
				c.Labels = [][2]string{{"tier", "fe"}}
			}
			for k := 0; k <= counts[i]; k++ {
				c.Recs = append(c.Recs, LRec{TS: (mT0+1)*1e9 + int64(i)*1000 + int64(k)*700000000, Body: pick(r, []string{"x", "info", "error x"})})
			}
			t.Ctrs = append(t.Ctrs, c)
		}
		inner := &MExpr{Kind: "range", Op: pick(r, []string{"rate", "rate", "bytes_rate"}), RangeS: 10}
		t.Metric = &MExpr{Kind: "vagg", Op: pick(r, []string{"sum", "sum", "avg", "stddev", "stdvar"}), A: inner}
		if r.Intn(3) == 0 {
			t.Metric.Group = &MGroup{Without: true, Labels: []string{"container", "container_id", "container_name", "tier"}}
		}
		t.Start, t.End, t.Step = (mT0+10)*1e9, (mT0+10)*1e9, 0
		t.Reps = 4
		return t
	}
	if r.Intn(2) == 0 {
		inner := &MExpr{Kind: "range", Op: pick(r, []string{"count_over_time", "bytes_over_time", "rate"}), RangeS: pick(r, []int64{5, 10})}
		e := inner
		switch r.Intn(4) {
		case 0:
			e = &MExpr{Kind: "vagg", Op: pick(r, mVecOps), Group: &MGroup{Without: r.Intn(2) == 0, Labels: distinctStrings(r, []string{"container", "tier", "app", "container_id"}, 1+r.Intn(2))}, A: inner}
		case 1:
			cp := *inner
			e = &MExpr{Kind: "bin", Op: pick(r, []string{"add", "mul", "and", "or", "gt"}), A: inner, B: &cp}
		}
		t.Metric = e
		t.Start, t.End, t.Step = mT0*1e9, (mT0+10)*1e9, 5e9
		if r.Intn(3) == 0 {
			t.Start, t.Step = t.End, 0
		}
	} else {
		if r.Intn(2) == 0 {
			t.Sel = []LMatcher{{Label: pick(r, []string{"container", "tier", "app"}), Op: pick(r, []string{"eq", "ne"}), Value: pick(r, []string{"web", "x", "fe", ""})}}
		}
		for i, m := 0, r.Intn(3); i < m; i++ {
			t.Stages = append(t.Stages, genStage(r, pick(r, []string{"lf", "logfmt", "lblf", "drop", "lblfmt", "json"})))
		}
		if r.Intn(6) == 0 {
			// several labels asking for one path (held in a map by the extractor): every one of them must get
			// the value on every run, for scalars and for nested values alike
			path := pick(r, [][]PathSel{{{Key: "nested"}}, {{Key: "a"}}, {{Key: "lvl"}}, {{Key: "nested"}, {Key: "k"}}})
			st := LStage{Kind: "json"}
			for _, l := range distinctStrings(r, []string{"p", "qq", "zz", "a"}, 2+r.Intn(2)) {
				st.Paths = append(st.Paths, LPathExpr{Label: l, Path: path})
			}
			t.Stages = append([]LStage{st}, t.Stages...)
			if len(t.Stages) > 2 {
				t.Stages = t.Stages[:2]
			}
			for ci := range t.Ctrs {
				for ri := range t.Ctrs[ci].Recs {
					t.Ctrs[ci].Recs[ri].Body = pick(r, []string{`{"a":"x","nested":{"k":1}}`, `{"nested":[1,2],"lvl":"warn"}`, `{"a":"y","lvl":"info","nested":{"k":"v"}}`})
				}
			}
		}
		fixAmbiguity(t.Stages)
		if r.Intn(3) == 0 {
			t.Limit = 1 + r.Intn(3)
		}
	}
	return t
}

func c18Impl(d *cliDriver, thorough bool) func(t c18Case) Sexp {
	return func(t c18Case) Sexp {
		orders := t.Orders
		if orders == nil {
			if thorough || len(t.Ctrs) <= 3 {
				orders = permutations(len(t.Ctrs))
			} else {
				r := rand.New(rand.NewSource(int64(len(t.Ctrs)) + t.Start))
				for i := 0; i < 6; i++ {
					orders = append(orders, r.Perm(len(t.Ctrs)))
				}
			}
		}
		var first Sexp
		var firstRender, firstExact string
		haveFirst := false
		for _, order := range orders {
			for rep := 0; rep < t.Reps; rep++ {
				q, _ := dockerlog.NewQuerier(t.fake(order))
				var res Sexp
				rendered, exact := "", ""
				if t.Metric != nil {
					mq := MetricCase{E: *t.Metric, Start: t.Start, End: t.End, Step: t.Step}
					_ = mq
					data, err := evalQuery(q, t.queryText(), t.Start, t.End, timeDur(t.Step), -1)
					if err != nil {
						res = L(A("err"), A(errClassOf(err)))
					} else {
						res = metricDataSexp(data)
						exact = metricDataExact(data)
					}
				} else {
					lim := -1
					if t.Limit > 0 {
						lim = t.Limit
					}
					data, err := evalQuery(q, t.queryText(), t.Start, t.End, 0, lim)
					if err != nil {
						res = L(A("err"), A(errClassOf(err)))
					} else {
						res = streamsSexp(data, false)
						// rendered bytes, colour off
						type ent struct {
							T uint64 `json:"t"`
							V string `json:"v"`
						}
						type st struct {
							Labels  map[string]string `json:"labels"`
							Entries []ent             `json:"entries"`
						}
						req := struct {
							Op        string `json:"op"`
							Timestamp bool   `json:"timestamp"`
							Container bool   `json:"container"`
							Color     bool   `json:"color"`
							Streams   []st   `json:"streams"`
						}{Op: "render", Timestamp: true, Container: true}
						for _, s := range data.StreamsResult.Result {
							x := st{Labels: s.Stream.Value}
							for _, e := range s.Values {
								x.Entries = append(x.Entries, ent{e.T, hex.EncodeToString([]byte(e.V))})
							}
							req.Streams = append(req.Streams, x)
						}
						rendered = d.Ask(req).Out
					}
				}
				if !haveFirst {
					first, firstRender, firstExact, haveFirst = res, rendered, exact, true
					continue
				}
				// repetitions must agree to the last digit: the values are compared as printed, not within
				// the tolerance used against the model (a sum folded in map order differs in the last bit)
				if exact != firstExact {
					return L(A("nondeterministic-result"), B(firstExact), B(exact))
				}
				same := res.String() == first.String()
				if t.Metric != nil {
					same = sameResult(metricImplParse(res), metricImplParse(first))
				}
				if !same {
					return L(A("nondeterministic-result"), first, res)
				}
				// the property promises byte-identical rendering for distinct timestamps only
				if rendered != firstRender && !t.hasTies() {
					return L(A("nondeterministic-render"), B(firstRender), B(rendered))
				}
			}
		}
		if !haveFirst {
			return L(A("err"), A("no-run"))
		}
		return first
	}
}

func init() {
	props["C18"] = func(c *Ctx) {
		c.Res.Rule = "case = 1-5 containers with Docker labels and interleaved logs (timestamps strictly increasing within a container; in a third of the cases several containers share an instant, and a third of the log queries carry a limit of 1-3 that cuts inside such a tie) x log query (selector, line/label filters, logfmt, drop, label_format) or metric query (range aggregation, vector aggregation by/without container labels, binary operation of a vector with itself) evaluated end to end: fake Docker client -> dockerlog.Querier (concurrent opens) -> Engine.Eval -> renderResult (colour off); every case under all completion orders of the opens (all permutations up to 3 containers in quick / 5 in thorough, else 6 sampled) x 3 repetitions (map iteration orders); results and rendered bytes must be identical across all runs and equal to the model's value on the merged records; non-trivial = at least 2 containers with records; distinct by request line"
		d := startCLI(c)
		spec := &Spec[c18Case]{
			What: "end-to-end determinism: identical results and rendered bytes under all completion orders and repetitions; == LogQL/Metric model on the merged records",
			Gen:  c18Gen,
			Req:  func(t c18Case) Sexp { return t.Req() },
			Impl: c18Impl(d, c.Thorough()),
			Equal: func(t c18Case, impl, model Sexp) bool {
				if t.hasTies() {
					// which of several records of one instant comes first is the heap's business
					// (Merge.Run admits any tie-break): only determinism is demanded of such cases
					h := impl.Head()
					return h != "nondeterministic-result" && h != "nondeterministic-render" && h != "panic" && h != "timeout"
				}
				if t.Metric != nil {
					return metricEqual(MetricCase{}, impl, model)
				}
				return impl.String() == model.String()
			},
			Shrink: func(t c18Case) []c18Case {
				var out []c18Case
				for i := range t.Ctrs {
					x := t
					x.Ctrs = append(append([]c18Ctr{}, t.Ctrs[:i]...), t.Ctrs[i+1:]...)
					if len(x.Ctrs) > 0 {
						out = append(out, x)
					}
				}
				for i, ct := range t.Ctrs {
					if len(ct.Recs) > 0 {
						x := t
						x.Ctrs = append([]c18Ctr{}, t.Ctrs...)
						x.Ctrs[i].Recs = ct.Recs[:len(ct.Recs)-1]
						out = append(out, x)
					}
				}
				for i := range t.Stages {
					x := t
					x.Stages = append(append([]LStage{}, t.Stages[:i]...), t.Stages[i+1:]...)
					out = append(out, x)
				}
				return out
			},
			Nontrivial: func(t c18Case, _ Sexp) bool {
				n := 0
				for _, ct := range t.Ctrs {
					if len(ct.Recs) > 0 {
						n++
					}
				}
				return n >= 2
			},
			PropertyFails: func(t c18Case, impl, model Sexp) bool {
				h := impl.Head()
				return h == "nondeterministic-result" || h == "nondeterministic-render" || h == "panic"
			},
			Signature: func(t c18Case, impl, model Sexp) string {
				if h := impl.Head(); h == "nondeterministic-result" || h == "nondeterministic-render" {
					return h
				}
				return ""
			},
			Tags: func(t c18Case, impl Sexp) []string {
				k := "log"
				if t.Metric != nil {
					k = "metric"
				}
				return []string{fmt.Sprintf("c18:containers=%d", len(t.Ctrs)), "c18:kind=" + k, "c18:impl=" + impl.Head()}
			},
		}
		RunSpec(c, spec, c.Scale(600, 6000))
		if c.ReplayIn != "" {
			return
		}
		// K3 probe (recorded finding): two Docker label keys of one container with the same sanitised name —
		// the value that survives follows map iteration order, so the same query gives different stream labels
		k3 := c18Case{Ctrs: []c18Ctr{{Name: "k3", Labels: [][2]string{{"a.b", "dot"}, {"a-b", "dash"}}, Recs: []LRec{{TS: mT0 * 1e9, Body: "x"}}}},
			Start: (mT0 - 5) * 1e9, End: (mT0 + 5) * 1e9, Reps: 1}
		seen := map[string]int{}
		for i := 0; i < 60; i++ {
			q, _ := dockerlog.NewQuerier(k3.fake(nil))
			data, err := evalQuery(q, `{container="k3"}`, k3.Start, k3.End, 0, -1)
			if err != nil {
				seen["err:"+errClassOf(err)]++
				continue
			}
			seen[streamsSexp(data, false).String()]++
		}
		c.Count(fmt.Sprintf("k3:distinct-answers=%d of 60 runs", len(seen)))
		if len(seen) != 1 {
			cj, _ := json.Marshal(k3)
			c.Fail(Failure{Kind: "failing-input", Signature: "K3", What: "determinism at a sanitisation collision", Case: cj,
				Request: `{container="k3"} over one container with Docker labels {"a.b":"dot","a-b":"dash"}, 60 runs`,
				Impl:    fmt.Sprintf("%d distinct answers", len(seen)), Model: "Docker.getLabels keeps the later key (C20_collision_witness); the runtime's map order decides which is later"})
		}
	}
}
