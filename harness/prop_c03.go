package main

import (
	"bytes"
	"encoding/binary"
	"errors"
	"fmt"
	"io"
	"math/rand"
	"strings"
	"time"

	"github.com/tdakkota/docker-logql/internal/dockerlog"
	"github.com/tdakkota/docker-logql/internal/logstorage"
	"github.com/tdakkota/docker-logql/internal/otelstorage"
	"go.opentelemetry.io/collector/pdata/pcommon"
)

// chunkReader delivers a byte stream in the given chunk sizes (0 = an empty read), the
// last data optionally together with io.EOF.
type chunkReader struct {
	data    []byte
	sizes   []int
	eofWith bool
	closed  *int
	failAt  int // fail with a read error once this many bytes were delivered (-1 = never)
	done    int
}

var errInjected = errors.New("injected read error")

func (r *chunkReader) Read(p []byte) (int, error) {
	if r.failAt >= 0 && r.done >= r.failAt {
		return 0, errInjected
	}
	if len(r.data) == 0 {
		return 0, io.EOF
	}
	n := len(r.data)
	if len(r.sizes) > 0 {
		n = r.sizes[0]
		r.sizes = r.sizes[1:]
	}
	if n > len(r.data) {
		n = len(r.data)
	}
	if n > len(p) {
		n = len(p)
	}
	if r.failAt >= 0 && r.done+n > r.failAt {
		n = r.failAt - r.done
	}
	copy(p, r.data[:n])
	r.data = r.data[n:]
	r.done += n
	if len(r.data) == 0 && r.eofWith && n > 0 {
		return n, io.EOF
	}
	return n, nil
}

func (r *chunkReader) Close() error {
	if r.closed != nil {
		*r.closed++
	}
	return nil
}

type c03Rec struct {
	TS   string `json:"ts"` // timestamp text as written by the daemon
	Typ  byte   `json:"typ"`
	Body []byte `json:"body"`
	Raw  []byte `json:"raw,omitempty"` // if set, payload is Raw (no timestamp/space added)
}

type c03Case struct {
	Recs    []c03Rec `json:"recs"`
	Cut     int      `json:"cut"` // -1: whole stream; else keep this many bytes
	Sizes   []int    `json:"sizes,omitempty"`
	EOFWith bool     `json:"eof_with"`
}

func c03Frame(r c03Rec) []byte {
	payload := r.Raw
	if payload == nil {
		payload = append(append([]byte(r.TS), ' '), r.Body...)
	}
	var hdr [8]byte
	hdr[0] = r.Typ
	binary.BigEndian.PutUint32(hdr[4:], uint32(len(payload)))
	return append(hdr[:], payload...)
}

func c03Stream(t c03Case) []byte {
	var b []byte
	for _, r := range t.Recs {
		b = append(b, c03Frame(r)...)
	}
	if t.Cut >= 0 && t.Cut < len(b) {
		b = b[:t.Cut]
	}
	return b
}

func errClass(err error) string {
	if err == nil {
		return "clean"
	}
	m := err.Error()
	switch {
	case strings.Contains(m, "read message"):
		return "errbody"
	case strings.Contains(m, "daemon log stream error"):
		return "errdaemon"
	case strings.Contains(m, "no space"):
		return "errnospace"
	case strings.Contains(m, "parse timestamp"):
		return "errts"
	case strings.Contains(m, "read header"):
		return "errheader"
	}
	return "err:" + m
}

// c03Equal: the records decoded, and whether the stream ended cleanly or with an error — the property
// does not say WHICH error (the classes above are derived from message wording and only feed the tags)
func c03Equal(_ c03Case, impl, model Sexp) bool {
	norm := func(s Sexp) string {
		if s.IsL && len(s.List) == 2 && !s.List[1].IsL && s.List[1].Atom != "clean" {
			return L(s.List[0], A("err")).String()
		}
		return s.String()
	}
	return norm(impl) == norm(model)
}

func c03Decode(rd io.ReadCloser) Sexp {
	it := dockerlog.ParseLog(rd, otelstorage.Attrs(pcommon.NewMap()))
	// the records are kept across the following Next calls and only read once the stream has ended,
	// as the engine does (it collects entries): a body that aliases a reused read buffer shows here
	var kept []logstorage.Record
	var r logstorage.Record
	for it.Next(&r) {
		kept = append(kept, r)
		if len(kept) > 100000 {
			return L(A("runaway"))
		}
	}
	err := it.Err()
	recs := make([]Sexp, 0, len(kept))
	for _, k := range kept {
		recs = append(recs, L(A("rec"), N(int64(k.Timestamp)), B(k.Body)))
	}
	return L(LS(recs), A(errClass(err)))
}

var c03Bodies = []string{"", " ", "hello", "a b  c", "line\nbreak", "\x00\xff\xfe", "trailing \r\n", "2024-01-01T00:00:00Z x", "é"}

func c03Timestamp(r *rand.Rand) string {
	// 1700..2200, any nanosecond, printed with 0..9 fractional digits and a zone
	sec := r.Int63n(15778800000) - 8520336000
	digits := r.Intn(10)
	ns := int64(0)
	if digits > 0 {
		p := int64(1)
		for i := 0; i < 9-digits; i++ {
			p *= 10
		}
		ns = r.Int63n(1000000000) / p * p
	}
	t := time.Unix(sec, ns).UTC()
	var zone *time.Location
	switch r.Intn(4) {
	case 0:
		zone = time.FixedZone("", (r.Intn(47)-23)*1800)
	default:
		zone = time.UTC
	}
	t = t.In(zone)
	layout := "2006-01-02T15:04:05"
	if digits > 0 {
		layout += "." + strings.Repeat("0", digits)
	}
	if r.Intn(8) == 0 {
		// more than nine fraction digits: the extra ones are dropped
		return t.Format(layout) + func() string {
			if digits == 9 {
				return "123"
			}
			return ""
		}() + t.Format("Z07:00")
	}
	return t.Format(layout + "Z07:00")
}

func c03GenRec(r *rand.Rand) c03Rec {
	body := c03Bodies[r.Intn(len(c03Bodies))]
	if r.Intn(4) == 0 {
		b := make([]byte, r.Intn(12))
		for i := range b {
			b[i] = byte(r.Intn(256))
		}
		body = string(b)
	}
	if r.Intn(40) == 0 {
		// long messages around the sizes a daemon or a reader might treat specially (the daemon copies a long
		// line in 16 KiB pieces; a frame body also holds the timestamp and a space)
		n := pick(r, []int{4095, 4096, 16352, 16353, 16354, 16384, 16385, 32768, 65535, 65536, 70000})
		body = strings.Repeat(pick(r, []string{"x", "ab ", "\n"}), n)[:n]
	}
	typ := byte(1 + r.Intn(2))
	if r.Intn(20) == 0 {
		typ = 0
	}
	return c03Rec{TS: c03Timestamp(r), Typ: typ, Body: []byte(body)}
}

var c03BadTS = []string{"", "x", "2024-13-01T00:00:00Z", "2024-02-30T00:00:00Z", "2023-02-29T00:00:00Z", "2024-01-01T24:00:00Z",
	"2024-01-01T00:60:00Z", "2024-01-01T00:00:60Z", "2024-01-01 00:00:00Z", "2024-01-01T00:00:00", "2024-01-01T00:00:00+0100",
	"2024-01-01T00:00:00+25:00", "2024-01-01T00:00:00.Z", "20240101T000000Z", "2024-01-01T00:00:00Zjunk", "abcd-01-01T00:00:00Z",
	"2024-01-01T00:00:00.12x456Z"}

func c03Gen(r *rand.Rand) c03Case {
	n := r.Intn(7)
	t := c03Case{Cut: -1}
	for i := 0; i < n; i++ {
		t.Recs = append(t.Recs, c03GenRec(r))
	}
	switch r.Intn(8) {
	case 0: // daemon error frame somewhere
		if n > 0 {
			t.Recs[r.Intn(n)].Typ = 3
		}
	case 1: // unparsable timestamp
		if n > 0 {
			t.Recs[r.Intn(n)].TS = c03BadTS[r.Intn(len(c03BadTS))]
		}
	case 2: // payload without a space
		if n > 0 {
			t.Recs[r.Intn(n)].Raw = []byte("nospacehere")
		}
	case 3, 4: // truncation
		total := len(c03Stream(t))
		if total > 0 {
			t.Cut = r.Intn(total)
		}
	}
	switch r.Intn(4) {
	case 0: // whole
	case 1: // byte by byte
		total := len(c03Stream(t))
		t.Sizes = make([]int, total)
		for i := range t.Sizes {
			t.Sizes[i] = 1
		}
	default:
		total := len(c03Stream(t))
		for sum := 0; sum < total; {
			k := r.Intn(12)
			if r.Intn(3) == 0 {
				k = r.Intn(4)
			}
			t.Sizes = append(t.Sizes, k)
			sum += k
		}
	}
	t.EOFWith = r.Intn(2) == 0
	return t
}

func c03Shrink(t c03Case) []c03Case {
	var out []c03Case
	for i := range t.Recs {
		c := t
		c.Recs = append(append([]c03Rec{}, t.Recs[:i]...), t.Recs[i+1:]...)
		if t.Cut >= 0 {
			c.Cut = t.Cut - len(c03Frame(t.Recs[i]))
			if c.Cut < 0 {
				c.Cut = 0
			}
		}
		out = append(out, c)
	}
	if t.Sizes != nil {
		c := t
		c.Sizes = nil
		out = append(out, c)
	}
	for i, r := range t.Recs {
		if len(r.Body) > 0 && r.Raw == nil {
			c := t
			c.Recs = append([]c03Rec{}, t.Recs...)
			c.Recs[i].Body = r.Body[:len(r.Body)/2]
			if t.Cut >= 0 {
				continue
			}
			out = append(out, c)
		}
	}
	return out
}

func c03Chunks(stream []byte, sizes []int) []Sexp {
	if sizes == nil {
		return []Sexp{B(string(stream))}
	}
	var out []Sexp
	for _, k := range sizes {
		if k > len(stream) {
			k = len(stream)
		}
		out = append(out, B(string(stream[:k])))
		stream = stream[k:]
	}
	if len(stream) > 0 {
		out = append(out, B(string(stream)))
	}
	return out
}

func init() {
	props["C03"] = func(c *Ctx) {
		c.Res.Rule = "case = record list (bodies with spaces, newlines, NUL, non-UTF-8; one record in forty 4 KiB - 70 KB long, around the 16 KiB and 64 KiB marks; stdout/stderr/stdin frames; timestamps 1700-2200 with 0-9(+) fraction digits and zone offsets) x fault (none / truncation at a byte / daemon frame / bad timestamp / no space) x fragmentation (whole, 1-byte, random incl. empty reads, data+EOF); non-trivial = at least 2 records and (fragmented or faulted); distinct by request line"
		frames := &Spec[c03Case]{
			What: "Frames.decodeAll == dockerlog.ParseLog (whole stream) and Frames.decodeChunks (same fragmentation)",
			Gen:  c03Gen,
			Req: func(t c03Case) Sexp {
				return L(A("frames"), B(string(c03Stream(t))))
			},
			Impl: func(t c03Case) Sexp {
				return c03Decode(&chunkReader{data: c03Stream(t), sizes: append([]int{}, t.Sizes...), eofWith: t.EOFWith, failAt: -1})
			},
			Shrink: c03Shrink,
			Equal:  c03Equal,
			Nontrivial: func(t c03Case, _ Sexp) bool {
				faulted := t.Cut >= 0
				for _, r := range t.Recs {
					if r.Typ == 3 || r.Raw != nil {
						faulted = true
					}
				}
				return len(t.Recs) >= 2 && (faulted || t.Sizes != nil)
			},
			Tags: func(t c03Case, impl Sexp) []string {
				tags := []string{fmt.Sprintf("c03:records=%d", len(t.Recs))}
				if len(impl.List) == 2 {
					tags = append(tags, "c03:end="+impl.List[1].Atom)
				}
				if t.Sizes != nil {
					tags = append(tags, "c03:fragmented")
				}
				if t.Cut >= 0 {
					tags = append(tags, "c03:truncated")
				}
				return tags
			},
		}
		// the chunked-reader model must agree with the flat one on the same fragmentation
		chunked := &Spec[c03Case]{
			What: "Frames.decodeChunks == dockerlog.ParseLog under the same fragmentation",
			Gen:  c03Gen,
			Req: func(t c03Case) Sexp {
				return L(A("frameschunks"), LS(c03Chunks(c03Stream(t), t.Sizes)))
			},
			Impl:       frames.Impl,
			Shrink:     c03Shrink,
			Equal:      c03Equal,
			Nontrivial: frames.Nontrivial,
		}
		ts := &Spec[c03Rec]{
			What: "Rfc3339.parse == time.Parse(RFC3339Nano) on daemon timestamps and on the malformed list",
			Gen: func(r *rand.Rand) c03Rec {
				if r.Intn(5) == 0 {
					return c03Rec{TS: c03BadTS[r.Intn(len(c03BadTS))]}
				}
				return c03Rec{TS: c03Timestamp(r)}
			},
			Req: func(t c03Rec) Sexp { return L(A("rfc3339"), B(t.TS)) },
			Impl: func(t c03Rec) Sexp {
				v, err := time.Parse(time.RFC3339Nano, t.TS)
				if err != nil {
					return L(A("err"))
				}
				return L(A("ok"), N(int64(otelstorage.NewTimestampFromTime(v))))
			},
		}
		if c.ReplayIn != "" {
			RunSpec(c, frames, 0)
			return
		}
		RunSpec(c, ts, c.Scale(3000, 100000))
		RunSpec(c, frames, c.Scale(4000, 150000))
		RunSpec(c, chunked, c.Scale(2000, 50000))
		// exhaustive: every truncation point and every position of a daemon / corrupt frame
		nrec := c.Scale(3, 6)
		var ex []c03Case
		for rep := 0; rep < c.Scale(3, 20); rep++ {
			base := c03Case{Cut: -1}
			for i := 0; i < nrec; i++ {
				base.Recs = append(base.Recs, c03GenRec(c.Rng))
			}
			total := len(c03Stream(base))
			for k := 0; k <= total; k++ {
				t := base
				t.Cut = k
				if k%3 == 1 {
					t.Sizes = []int{1, 0, 2, 5, 0, 0, 3, 7, 1, 1, 1, 64}
				}
				t.EOFWith = k%2 == 0
				ex = append(ex, t)
			}
			for i := 0; i < nrec; i++ {
				for _, mode := range []int{0, 1, 2} {
					t := base
					t.Recs = append([]c03Rec{}, base.Recs...)
					switch mode {
					case 0:
						t.Recs[i].Typ = 3
					case 1:
						t.Recs[i].TS = c03BadTS[(i+rep)%len(c03BadTS)]
					case 2:
						t.Recs[i].Raw = []byte("nospace")
					}
					ex = append(ex, t)
				}
			}
		}
		c.CountN("c03:exhaustive-fault-positions", len(ex))
		RunCases(c, frames, ex)
		c.Res.Exhaustive = false
		c.Res.ExhaustiveNote = fmt.Sprintf("for %d random streams of %d records: every truncation point 0..len and a daemon/corrupt/no-space frame at every position", c.Scale(3, 20), nrec)
		_ = bytes.MinRead
	}
}
