package main

import (
	"fmt"
	"math"

	"github.com/tdakkota/docker-logql/internal/lokiapi"
	"math/big"
	"math/rand"
	"sort"
	"strconv"
	"strings"
	"time"
)

// ---- metric query AST shared with the Lean model (Verif/Model/Metric.lean) ----

type MGroup struct {
	Without bool     `json:"without,omitempty"`
	Labels  []string `json:"labels"`
}

type MUnwrap struct {
	Conv    string     `json:"conv,omitempty"` // "", bytes, duration, duration_seconds
	Label   string     `json:"label"`
	Filters []LMatcher `json:"filters,omitempty"`
}

type MExpr struct {
	Kind        string     `json:"k"` // range vagg bin lit vector
	Op          string     `json:"op,omitempty"`
	Param       string     `json:"param,omitempty"` // as written
	Sel         []LMatcher `json:"sel,omitempty"`
	Stages      []LStage   `json:"stages,omitempty"`
	RangeS      int64      `json:"range_s,omitempty"`
	OffsetS     int64      `json:"offset_s,omitempty"`
	Unwrap      *MUnwrap   `json:"unwrap,omitempty"`
	Group       *MGroup    `json:"group,omitempty"`
	GroupBefore bool       `json:"group_before,omitempty"`
	RangeFirst  bool       `json:"range_first,omitempty"` // {sel}[r] | pipeline  instead of  {sel} | pipeline [r]
	BoolMod     bool       `json:"bool,omitempty"`
	OnMod       bool       `json:"on,omitempty"`
	A           *MExpr     `json:"a,omitempty"`
	B           *MExpr     `json:"b,omitempty"`
	Val         string     `json:"val,omitempty"` // literal / vector value as written
	Paren       bool       `json:"paren,omitempty"`
}

var binOpText = map[string]string{"or": "or", "and": "and", "unless": "unless", "add": "+", "sub": "-", "mul": "*", "div": "/",
	"mod": "%", "pow": "^", "eq": "==", "ne": "!=", "gt": ">", "ge": ">=", "lt": "<", "le": "<="}

// conventional precedence (higher binds tighter) and right-associativity
var binPrec = map[string]int{"or": 1, "and": 2, "unless": 2, "eq": 3, "ne": 3, "gt": 3, "ge": 3, "lt": 3, "le": 3,
	"add": 4, "sub": 4, "mul": 5, "div": 5, "mod": 5, "pow": 6}

func ratSexp(s string) Sexp {
	r, ok := new(big.Rat).SetString(s)
	if !ok {
		panic("bad rational " + s)
	}
	return L(A("q"), A(r.Num().String()), A(r.Denom().String()))
}

func (g *MGroup) Text() string {
	kw := "by"
	if g.Without {
		kw = "without"
	}
	return kw + " (" + strings.Join(g.Labels, ", ") + ")"
}

func (g *MGroup) Sexp() Sexp {
	if g == nil {
		return A("none")
	}
	kw := "by"
	if g.Without {
		kw = "without"
	}
	xs := []Sexp{A(kw)}
	for _, l := range g.Labels {
		xs = append(xs, B(l))
	}
	return LS(xs)
}

// Text renders the expression; binary operators are parenthesised only where the conventional
// reading (precedence, left associativity except ^) requires it.
func (e *MExpr) Text() string {
	s := e.text()
	if e.Paren {
		return "(" + s + ")"
	}
	return s
}

func (e *MExpr) text() string {
	switch e.Kind {
	case "range":
		inner := "{" + joinMatchers(e.Sel) + "}"
		var pipe string
		for _, st := range e.Stages {
			pipe += " " + st.Text()
		}
		if u := e.Unwrap; u != nil {
			if u.Conv != "" {
				pipe += " | unwrap " + u.Conv + "(" + u.Label + ")"
			} else {
				pipe += " | unwrap " + u.Label
			}
			for _, f := range u.Filters {
				pipe += " | " + f.Text()
			}
		}
		rng := fmt.Sprintf("[%ds]", e.RangeS)
		if e.OffsetS != 0 {
			rng += fmt.Sprintf(" offset %ds", e.OffsetS)
		}
		if e.RangeFirst {
			inner += rng + pipe
		} else {
			inner += pipe + " " + rng
		}
		s := e.Op + "("
		if e.Param != "" {
			s += e.Param + ", "
		}
		s += inner + ")"
		if e.Group != nil {
			s += " " + e.Group.Text()
		}
		return s
	case "vagg":
		arg := "("
		if e.Param != "" {
			arg += e.Param + ", "
		}
		arg += e.A.Text() + ")"
		switch {
		case e.Group == nil:
			return e.Op + arg
		case e.GroupBefore:
			return e.Op + " " + e.Group.Text() + " " + arg
		default:
			return e.Op + arg + " " + e.Group.Text()
		}
	case "bin":
		p := binPrec[e.Op]
		l, r := e.A.Text(), e.B.Text()
		if e.A.Kind == "bin" && !e.A.Paren {
			lp := binPrec[e.A.Op]
			if lp < p || (lp == p && e.Op == "pow") {
				l = "(" + l + ")"
			}
		}
		if e.B.Kind == "bin" && !e.B.Paren {
			rp := binPrec[e.B.Op]
			if rp < p || (rp == p && e.Op != "pow") {
				r = "(" + r + ")"
			}
		}
		op := binOpText[e.Op]
		if e.BoolMod {
			op += " bool"
		}
		if e.OnMod {
			op += " on (c)"
		}
		return l + " " + op + " " + r
	case "lit":
		return e.Val
	case "vector":
		return "vector(" + e.Val + ")"
	}
	panic("mexpr kind " + e.Kind)
}

func joinMatchers(ms []LMatcher) string {
	parts := make([]string, len(ms))
	for i, m := range ms {
		parts[i] = m.Text()
	}
	return strings.Join(parts, ", ")
}

func (e *MExpr) Sexp() Sexp {
	switch e.Kind {
	case "range":
		param := A("none")
		if e.Param != "" {
			param = ratSexp(e.Param)
		}
		uw := A("none")
		if u := e.Unwrap; u != nil {
			conv := u.Conv
			if conv == "" {
				conv = "plain"
			}
			if conv == "duration_seconds" {
				conv = "duration"
			}
			xs := []Sexp{A("unwrap"), A(conv), B(u.Label)}
			for _, f := range u.Filters {
				xs = append(xs, f.Sexp())
			}
			uw = LS(xs)
		}
		return L(A("range"), A(e.Op), param, logQuerySexp(e.Sel, e.Stages), N(e.RangeS*1e9), N(e.OffsetS*1e9), uw, e.Group.Sexp())
	case "vagg":
		param := A("none")
		if e.Param != "" {
			param = A(e.Param)
		}
		return L(A("vagg"), A(e.Op), param, e.Group.Sexp(), e.A.Sexp())
	case "bin":
		return L(A("bin"), A(e.Op), N(b2i(e.BoolMod)), N(b2i(e.OnMod)), e.A.Sexp(), e.B.Sexp())
	case "lit":
		return L(A("lit"), ratSexp(e.Val))
	case "vector":
		return L(A("vector"), ratSexp(e.Val))
	}
	panic("mexpr kind " + e.Kind)
}

type MetricCase struct {
	E     MExpr  `json:"e"`
	Recs  []LRec `json:"recs"`
	Start int64  `json:"start"` // ns
	End   int64  `json:"end"`
	Step  int64  `json:"step"` // ns; 0 with Start == End: instant
	// Bounds: the mock storage returns only the records inside the requested [start, end]
	Bounds bool `json:"bounds,omitempty"`
	// Repeat evaluates the implementation this many times and requires identical results (map order)
	Repeat int `json:"repeat,omitempty"`
}

func (t MetricCase) Req() Sexp {
	return L(A("metriceval"), t.E.Sexp(), recsSexp(t.Recs), N(t.Start), N(t.End), N(t.Step))
}

// ---- canonical results ----

type mPoint struct {
	T   int64   // milliseconds
	V   float64 // NaN allowed
	Tag string  // "" | unk
}

type mSeries struct {
	Labels string
	Points []mPoint
}

type mResult struct {
	Err    string
	Kind   string
	Series []mSeries // in result order
}

func parseModelVal(s Sexp) (float64, string) {
	switch s.Head() {
	case "q":
		r, _ := new(big.Rat).SetString(s.List[1].Atom + "/" + s.List[2].Atom)
		f, _ := r.Float64()
		return f, ""
	case "sqrt":
		r, _ := new(big.Rat).SetString(s.List[1].Atom + "/" + s.List[2].Atom)
		f, _ := r.Float64()
		return math.Sqrt(f), ""
	}
	switch s.Atom {
	case "nan":
		return math.NaN(), ""
	case "pinf":
		return math.Inf(1), ""
	case "ninf":
		return math.Inf(-1), ""
	}
	return 0, "unk"
}

func parseModelResult(s Sexp) mResult {
	if s.Head() == "err" {
		return mResult{Err: s.List[1].Atom}
	}
	if s.Head() != "ok" {
		return mResult{Err: "malformed:" + s.String()}
	}
	res := mResult{Kind: s.List[1].Atom}
	for _, sr := range s.List[2:] {
		ms := mSeries{Labels: sr.List[1].String()}
		for _, p := range sr.List[2:] {
			v, tag := parseModelVal(p.List[2])
			ms.Points = append(ms.Points, mPoint{T: p.List[1].Int() / 1e6, V: v, Tag: tag})
		}
		res.Series = append(res.Series, ms)
	}
	return res
}

// metricDataExact is the result as the engine printed it (value strings untouched), series sorted by
// label set: what two repetitions of one query must agree on to the last digit (C18).
func metricDataExact(data lokiapi.QueryResponseData) string {
	var rows []string
	switch data.Type {
	case "vector":
		for _, s := range data.VectorResult.Result {
			rows = append(rows, fmt.Sprintf("%s %v=%s", labelsSexp(s.Metric.Value).String(), s.Value.T, s.Value.V))
		}
	case "matrix":
		for _, s := range data.MatrixResult.Result {
			row := labelsSexp(s.Metric.Value).String()
			for _, p := range s.Values {
				row += fmt.Sprintf(" %v=%s", p.T, p.V)
			}
			rows = append(rows, row)
		}
	case "scalar":
		rows = append(rows, fmt.Sprintf("%v=%s", data.ScalarResult.Result.T, data.ScalarResult.Result.V))
	}
	sort.Strings(rows)
	return string(data.Type) + "\n" + strings.Join(rows, "\n")
}

func floatClose(a, b float64) bool {
	if math.IsNaN(a) || math.IsNaN(b) {
		return math.IsNaN(a) && math.IsNaN(b)
	}
	if math.IsInf(a, 0) || math.IsInf(b, 0) {
		return a == b
	}
	d := math.Abs(a - b)
	return d <= 1e-9*math.Max(1, math.Max(math.Abs(a), math.Abs(b)))
}

func (r mResult) sorted() []mSeries {
	out := append([]mSeries{}, r.Series...)
	sort.SliceStable(out, func(i, j int) bool { return out[i].Labels < out[j].Labels })
	return out
}

// sameResult compares canonically (series sorted by label set); duplicates of a label set are
// compared position-wise after a stable sort, which is what makes split series visible.
func sameResult(a, b mResult) bool {
	if a.Err != "" || b.Err != "" {
		// error or not; the class is derived from message wording and is not compared
		return (a.Err != "") == (b.Err != "")
	}
	if a.Kind != b.Kind || len(a.Series) != len(b.Series) {
		return false
	}
	as, bs := a.sorted(), b.sorted()
	// within equal label sets the order is not defined: sort those by their first value
	less := func(s []mSeries) {
		sort.SliceStable(s, func(i, j int) bool {
			if s[i].Labels != s[j].Labels {
				return s[i].Labels < s[j].Labels
			}
			if len(s[i].Points) == 0 || len(s[j].Points) == 0 {
				return len(s[i].Points) < len(s[j].Points)
			}
			if s[i].Points[0].T != s[j].Points[0].T {
				return s[i].Points[0].T < s[j].Points[0].T
			}
			return s[i].Points[0].V < s[j].Points[0].V
		})
	}
	less(as)
	less(bs)
	for i := range as {
		if as[i].Labels != bs[i].Labels || len(as[i].Points) != len(bs[i].Points) {
			return false
		}
		for j := range as[i].Points {
			p, q := as[i].Points[j], bs[i].Points[j]
			if p.Tag == "unk" || q.Tag == "unk" {
				continue // outside the value model
			}
			if p.T != q.T || !floatClose(p.V, q.V) {
				return false
			}
		}
	}
	return true
}

func (r mResult) Sexp() Sexp {
	if r.Err != "" {
		return L(A("err"), A(r.Err))
	}
	xs := []Sexp{A("ok"), A(r.Kind)}
	for _, s := range r.Series {
		ps := []Sexp{A("series"), ParseSexp(s.Labels)}
		for _, p := range s.Points {
			ps = append(ps, L(A("p"), N(p.T), A(strconv.FormatFloat(p.V, 'g', -1, 64))))
		}
		xs = append(xs, LS(ps))
	}
	return LS(xs)
}

// metricImplOnce evaluates the case once on the real engine.
func metricImplOnce(t MetricCase) mResult {
	mq := &mockQuerier{recs: t.Recs, honourBounds: t.Bounds, shareAttrs: t.Bounds}
	data, err := evalQuery(mq, t.E.Text(), t.Start, t.End, time.Duration(t.Step), -1)
	if err != nil {
		cls := errClassOf(err)
		if strings.Contains(err.Error(), "unsupported") || strings.Contains(err.Error(), "not supported") {
			cls = "unsupported"
		}
		return mResult{Err: cls}
	}
	return metricDataResult(data)
}

func metricDataSexp(data lokiapi.QueryResponseData) Sexp { return metricDataResult(data).Sexp() }

func metricDataResult(data lokiapi.QueryResponseData) mResult {
	parse := func(s string) float64 {
		f, err := strconv.ParseFloat(s, 64)
		if err != nil {
			return math.NaN()
		}
		return f
	}
	noDetails := func(m map[string]string) map[string]string {
		out := map[string]string{}
		for k, v := range m {
			if k != "__error_details__" {
				out[k] = v
			}
		}
		return out
	}
	switch data.Type {
	case "vector":
		res := mResult{Kind: "vector"}
		for _, s := range data.VectorResult.Result {
			res.Series = append(res.Series, mSeries{Labels: labelsSexp(noDetails(s.Metric.Value)).String(),
				Points: []mPoint{{T: int64(math.Round(s.Value.T * 1000)), V: parse(s.Value.V)}}})
		}
		return res
	case "matrix":
		res := mResult{Kind: "matrix"}
		for _, s := range data.MatrixResult.Result {
			ms := mSeries{Labels: labelsSexp(noDetails(s.Metric.Value)).String()}
			for _, p := range s.Values {
				ms.Points = append(ms.Points, mPoint{T: int64(math.Round(p.T * 1000)), V: parse(p.V)})
			}
			res.Series = append(res.Series, ms)
		}
		return res
	}
	return mResult{Err: "unexpected-type:" + string(data.Type)}
}

// metricImpl evaluates Repeat times; results must agree (hash-map iteration order is sampled).
func metricImpl(t MetricCase) Sexp {
	first := metricImplOnce(t)
	for i := 1; i < t.Repeat; i++ {
		if again := metricImplOnce(t); !sameResult(first, again) {
			return L(A("nondeterministic"), first.Sexp(), again.Sexp())
		}
	}
	return first.Sexp()
}

func metricEqual(t MetricCase, impl, model Sexp) bool {
	if h := impl.Head(); h != "ok" && h != "err" {
		return false
	}
	return sameResult(metricImplParse(impl), parseModelResult(model))
}

// metricImplParse re-reads the Sexp form produced by mResult.Sexp.
func metricImplParse(s Sexp) mResult {
	if s.Head() == "err" {
		return mResult{Err: s.List[1].Atom}
	}
	res := mResult{Kind: s.List[1].Atom}
	for _, sr := range s.List[2:] {
		ms := mSeries{Labels: sr.List[1].String()}
		for _, p := range sr.List[2:] {
			f, _ := strconv.ParseFloat(p.List[2].Atom, 64)
			if p.List[2].Atom == "NaN" {
				f = math.NaN()
			}
			ms.Points = append(ms.Points, mPoint{T: p.List[1].Int(), V: f})
		}
		res.Series = append(res.Series, ms)
	}
	return res
}

// ---- generators ----

const mT0 = int64(1700000000)

var (
	mRangeOpsPlain  = []string{"count_over_time", "rate", "bytes_over_time", "bytes_rate"}
	mRangeOpsUnwrap = []string{"sum_over_time", "avg_over_time", "min_over_time", "max_over_time", "stdvar_over_time", "stddev_over_time",
		"quantile_over_time", "first_over_time", "last_over_time", "rate"}
	mGroupableRange = map[string]bool{"avg_over_time": true, "stddev_over_time": true, "stdvar_over_time": true, "quantile_over_time": true,
		"max_over_time": true, "min_over_time": true, "first_over_time": true, "last_over_time": true}
	mVecOps   = []string{"sum", "avg", "min", "max", "count", "stddev", "stdvar"}
	mLabels   = []string{"c", "d", "a", "ab"}
	mLabelVal = []string{"x", "y", "bc", "c", "", "xy"}
)

func genMGroup(r *rand.Rand) *MGroup {
	if r.Intn(3) == 0 {
		return nil
	}
	g := &MGroup{Without: r.Intn(2) == 0}
	switch r.Intn(5) {
	case 0: // empty list
	case 1:
		g.Labels = []string{"nolabel"}
	case 2:
		g.Labels = []string{"c", "c"}
	default:
		g.Labels = distinctStrings(r, mLabels, 1+r.Intn(2))
	}
	return g
}

func genRangeExpr(r *rand.Rand, simple bool) *MExpr {
	e := &MExpr{Kind: "range", RangeS: pick(r, []int64{1, 2, 5, 10}), RangeFirst: r.Intn(2) == 0}
	if r.Intn(6) == 0 {
		// longer than the engine's 30 s lookback
		e.RangeS = pick(r, []int64{35, 60, 90})
	}
	if r.Intn(3) == 0 {
		e.OffsetS = pick(r, []int64{1, 2, 5})
	}
	if r.Intn(3) == 0 {
		e.Sel = []LMatcher{{Label: pick(r, mLabels), Op: pick(r, []string{"eq", "ne"}), Value: pick(r, mLabelVal)}}
	}
	if !simple && r.Intn(3) == 0 {
		e.Stages = []LStage{genStage(r, pick(r, []string{"lf", "lblf", "logfmt", "drop"}))}
	}
	if simple || r.Intn(2) == 0 {
		e.Op = pick(r, mRangeOpsPlain)
		if simple {
			e.Op = "count_over_time"
		}
	} else {
		e.Op = pick(r, mRangeOpsUnwrap)
		e.Unwrap = &MUnwrap{Label: "v"}
		switch r.Intn(5) {
		case 0:
			e.Unwrap = &MUnwrap{Label: "sz", Conv: "bytes"}
		case 1:
			e.Unwrap = &MUnwrap{Label: "dur", Conv: pick(r, []string{"duration", "duration_seconds"})}
		}
		if r.Intn(4) == 0 {
			// one post-filter, or several (built as a pipeline of matchers: a different code path)
			for i, n := 0, 1+r.Intn(3)*r.Intn(2); i < n; i++ {
				e.Unwrap.Filters = append(e.Unwrap.Filters, LMatcher{Label: pick(r, mLabels), Op: pick(r, []string{"eq", "ne"}), Value: pick(r, mLabelVal)})
			}
		}
		if e.Op == "quantile_over_time" {
			e.Param = pick(r, []string{"0.5", "0", "1", "0.25", "0.9"})
		}
		if mGroupableRange[e.Op] && r.Intn(2) == 0 {
			e.Group = genMGroup(r)
		}
	}
	return e
}

func genMRecs(r *rand.Rand, n int) []LRec {
	recs := make([]LRec, n)
	ts := mT0 - 2
	spread := int64(3)
	if r.Intn(4) == 0 {
		spread = 25 // records far apart: long ranges and the storage's time bounds matter
	}
	for i := range recs {
		ts += int64(r.Intn(int(spread))) // equal timestamps and 1 s lattice: window edges are hit
		rec := LRec{TS: ts * 1e9, Body: pick(r, []string{"x", "error a=1", "lvl=warn d=1", "", "é", "xy z"})}
		for _, l := range distinctStrings(r, mLabels, r.Intn(4)) {
			rec.Attrs = append(rec.Attrs, [2]string{l, pick(r, mLabelVal)})
		}
		if r.Intn(5) != 0 {
			v := pick(r, []string{"1", "2", "3", "5", "0.5", "10", "-2", "x"})
			if r.Intn(12) == 0 {
				v = pick(r, lgHostileNums)
				if strings.Contains(v, "e3") {
					v = "2.5" // sums and squares of values near MaxFloat64 overflow in float64; the model is exact
				}
			}
			rec.Attrs = append(rec.Attrs, [2]string{"v", v})
		}
		if r.Intn(3) == 0 {
			rec.Attrs = append(rec.Attrs, [2]string{"sz", pick(r, []string{"1KB", "10B", "1KiB", "junk"})})
		}
		if r.Intn(3) == 0 {
			rec.Attrs = append(rec.Attrs, [2]string{"dur", pick(r, []string{"1s", "250ms", "1m", "junk"})})
		}
		recs[i] = rec
	}
	return recs
}

// asciiBodiesIfRegex: the regex environment model is byte-level ASCII; when the query has a regex
// line filter, multi-byte lines are replaced (bytes_over_time over non-ASCII lines stays covered by
// the regex-free cases).
func asciiBodiesIfRegex(t *MetricCase) {
	has := false
	var walk func(e *MExpr)
	walk = func(e *MExpr) {
		for _, st := range e.Stages {
			if st.Re != nil {
				has = true
			}
		}
		if e.A != nil {
			walk(e.A)
		}
		if e.B != nil {
			walk(e.B)
		}
	}
	walk(&t.E)
	if !has {
		return
	}
	for i := range t.Recs {
		if t.Recs[i].Body == "é" {
			t.Recs[i].Body = "e"
		}
	}
}

func genParams(r *rand.Rand, t *MetricCase) {
	asciiBodiesIfRegex(t)
	t.Bounds = r.Intn(2) == 0
	start := mT0 + int64(r.Intn(8))
	if n := len(t.Recs); n > 0 && t.Recs[n-1].TS > (mT0+40)*1e9 {
		start = mT0 + int64(r.Intn(int(t.Recs[n-1].TS/1e9-mT0)+10))
	}
	if r.Intn(3) == 0 {
		t.Start, t.End, t.Step = start*1e9, start*1e9, 0
		return
	}
	step := pick(r, []int64{1, 2, 5, 10})
	k := int64(r.Intn(6))
	end := start + k*step + int64(r.Intn(2))*int64(r.Intn(int(step)))
	t.Start, t.End, t.Step = start*1e9, end*1e9, step*1e9
}
