package main

import (
	"context"
	"fmt"
	"sort"
	"strconv"
	"strings"

	"go.opentelemetry.io/collector/pdata/pcommon"

	"github.com/tdakkota/docker-logql/internal/iterators"
	"github.com/tdakkota/docker-logql/internal/logql"
	"github.com/tdakkota/docker-logql/internal/logql/logqlengine"
	"github.com/tdakkota/docker-logql/internal/logstorage"
	"github.com/tdakkota/docker-logql/internal/otelstorage"
)

// ---- log query AST shared with the Lean model (Verif/Model/LogQL.lean) ----

type LMatcher struct {
	Label string `json:"l"`
	Op    string `json:"op"` // eq ne re nre
	Value string `json:"v,omitempty"`
	Re    *Re    `json:"re,omitempty"`
}

type LPred struct {
	Kind  string    `json:"k"` // and or paren m num dur bytes ip
	A     *LPred    `json:"a,omitempty"`
	B     *LPred    `json:"b,omitempty"`
	M     *LMatcher `json:"m,omitempty"`
	Label string    `json:"l,omitempty"`
	Cmp   string    `json:"cmp,omitempty"` // eq ne gt ge lt le
	Lit   string    `json:"t,omitempty"`   // literal as written: number, duration, bytes, ip pattern
	Num   [2]int64  `json:"q,omitempty"`   // exact value of a number literal
	N     int64     `json:"n,omitempty"`   // nanoseconds / bytes
}

type TplPart struct {
	Kind string `json:"k"` // lit field line ts fail
	Text string `json:"t,omitempty"`
}

type PathSel struct {
	Key   string `json:"key,omitempty"`
	Idx   int    `json:"idx,omitempty"`
	IsIdx bool   `json:"is_idx,omitempty"`
}

type PatPart struct {
	Cap  bool   `json:"cap,omitempty"`
	Text string `json:"t"`
}

type LStage struct {
	Kind     string      `json:"k"` // lf lfip json logfmt regexp pattern unpack linefmt decolorize lblf lblfmt drop keep distinct
	Op       string      `json:"op,omitempty"`
	Value    string      `json:"v,omitempty"`
	Re       *Re         `json:"re,omitempty"`
	Neg      bool        `json:"neg,omitempty"`
	Labels   []string    `json:"labels,omitempty"`
	Paths    []LPathExpr `json:"paths,omitempty"`
	Keys     [][2]string `json:"keys,omitempty"` // logfmt label=key
	Groups   []string    `json:"groups,omitempty"`
	Pattern  []PatPart   `json:"pattern,omitempty"`
	Tpl      []TplPart   `json:"tpl,omitempty"`
	Renames  [][2]string `json:"renames,omitempty"` // dst, src
	Tpls     []LTplLabel `json:"tpls,omitempty"`
	Matchers []LMatcher  `json:"ms,omitempty"`
	Pred     *LPred      `json:"pred,omitempty"`
}

type LPathExpr struct {
	Label string    `json:"l"`
	Path  []PathSel `json:"p"`
}

type LTplLabel struct {
	Dst string    `json:"dst"`
	T   []TplPart `json:"t"`
}

type LRec struct {
	TS    int64       `json:"ts"`
	Body  string      `json:"body"`
	Attrs [][2]string `json:"attrs,omitempty"`
}

type LogCase struct {
	CapsLabel []string   `json:"caps_label,omitempty"`
	CapsLine  []string   `json:"caps_line,omitempty"`
	Sel       []LMatcher `json:"sel,omitempty"`
	Stages    []LStage   `json:"stages,omitempty"`
	Recs      []LRec     `json:"recs"`
	Limit     int        `json:"limit"`
	// Share: the storage hands out one attribute map for all records with the same attributes (the
	// Docker backend shares one resource map per container)
	Share bool `json:"share,omitempty"`
}

var strOpText = map[string]string{"eq": "=", "ne": "!=", "re": "=~", "nre": "!~"}
var cmpOpText = map[string]string{"eq": "==", "ne": "!=", "gt": ">", "ge": ">=", "lt": "<", "le": "<="}

func q(s string) string { return strconv.Quote(s) }

func (m LMatcher) Text() string {
	v := m.Value
	if m.Re != nil {
		v = m.Re.Text()
	}
	return m.Label + strOpText[m.Op] + q(v)
}

func (m LMatcher) Sexp() Sexp {
	if m.Re != nil {
		return L(A("m"), B(m.Label), A(m.Op), B(m.Re.Text()), m.Re.Sexp())
	}
	return L(A("m"), B(m.Label), A(m.Op), B(m.Value))
}

// Text renders a predicate with LogQL precedence: `and` binds tighter than `or`.
func (p *LPred) Text(parent string) string {
	switch p.Kind {
	case "and":
		return p.A.Text("and") + " and " + p.B.Text("and")
	case "or":
		s := p.A.Text("or") + " or " + p.B.Text("or")
		if parent == "and" {
			return "(" + s + ")"
		}
		return s
	case "paren":
		return "(" + p.A.Text("") + ")"
	case "m":
		return p.M.Text()
	case "num", "dur", "bytes":
		return p.Label + " " + cmpOpText[p.Cmp] + " " + p.Lit
	case "ip":
		op := "=="
		if p.Cmp == "ne" {
			op = "!="
		}
		return p.Label + op + "ip(" + q(p.Lit) + ")"
	}
	panic("pred kind " + p.Kind)
}

func (p *LPred) Sexp() Sexp {
	switch p.Kind {
	case "and", "or":
		return L(A(p.Kind), p.A.Sexp(), p.B.Sexp())
	case "paren":
		return L(A("paren"), p.A.Sexp())
	case "m":
		return p.M.Sexp()
	case "num":
		return L(A("num"), B(p.Label), A(p.Cmp), L(A("q"), N(p.Num[0]), N(p.Num[1])))
	case "dur", "bytes":
		return L(A(p.Kind), B(p.Label), A(p.Cmp), N(p.N))
	case "ip":
		return L(A("ip"), B(p.Label), N(b2i(p.Cmp == "ne")), B(p.Lit))
	}
	panic("pred kind " + p.Kind)
}

func tplText(t []TplPart) string {
	var sb strings.Builder
	for _, p := range t {
		switch p.Kind {
		case "lit":
			sb.WriteString(p.Text)
		case "field":
			sb.WriteString("{{." + p.Text + "}}")
		case "line":
			sb.WriteString("{{__line__}}")
		case "ts":
			sb.WriteString("{{ unixEpochNanos __timestamp__ }}")
		case "fail":
			sb.WriteString(`{{ unixToTime "x" }}`)
		case "epoch":
			sb.WriteString("{{ unixToTime ." + p.Text + " | unixEpochNanos }}")
		}
	}
	return sb.String()
}

func tplSexp(t []TplPart) Sexp {
	out := make([]Sexp, len(t))
	for i, p := range t {
		switch p.Kind {
		case "lit", "field", "epoch":
			out[i] = L(A(p.Kind), B(p.Text))
		default:
			out[i] = L(A(p.Kind))
		}
	}
	return LS(out)
}

func pathText(p []PathSel) string {
	var sb strings.Builder
	for i, s := range p {
		switch {
		case s.IsIdx:
			fmt.Fprintf(&sb, "[%d]", s.Idx)
		case isIdent(s.Key):
			if i > 0 {
				sb.WriteByte('.')
			}
			sb.WriteString(s.Key)
		default:
			sb.WriteString("[" + strconv.Quote(s.Key) + "]")
		}
	}
	return sb.String()
}

func isIdent(s string) bool {
	if s == "" {
		return false
	}
	for i, c := range []byte(s) {
		ok := c == '_' || (c >= 'a' && c <= 'z') || (c >= 'A' && c <= 'Z') || (i > 0 && c >= '0' && c <= '9')
		if !ok {
			return false
		}
	}
	return true
}

func bsList(xs []string) Sexp {
	out := make([]Sexp, len(xs))
	for i, x := range xs {
		out[i] = B(x)
	}
	return LS(out)
}

func matchersSexp(ms []LMatcher) Sexp {
	out := make([]Sexp, len(ms))
	for i, m := range ms {
		out[i] = m.Sexp()
	}
	return LS(out)
}

func namesAndMatchers(labels []string, ms []LMatcher) string {
	var parts []string
	parts = append(parts, labels...)
	for _, m := range ms {
		parts = append(parts, m.Text())
	}
	return strings.Join(parts, ", ")
}

func (s LStage) Text() string {
	switch s.Kind {
	case "lf":
		op := map[string]string{"eq": "|=", "ne": "!=", "re": "|~", "nre": "!~"}[s.Op]
		v := s.Value
		if s.Re != nil {
			v = s.Re.Text()
		}
		return op + " " + q(v)
	case "lfip":
		op := "|="
		if s.Neg {
			op = "!="
		}
		return op + " ip(" + q(s.Value) + ")"
	case "json", "logfmt":
		var parts []string
		parts = append(parts, s.Labels...)
		for _, p := range s.Paths {
			parts = append(parts, p.Label+"="+q(pathText(p.Path)))
		}
		for _, k := range s.Keys {
			parts = append(parts, k[0]+"="+q(k[1]))
		}
		return strings.TrimSpace("| " + s.Kind + " " + strings.Join(parts, ", "))
	case "regexp":
		return "| regexp " + q(s.Re.Text())
	case "pattern":
		var sb strings.Builder
		for _, p := range s.Pattern {
			if p.Cap {
				sb.WriteString("<" + p.Text + ">")
			} else {
				sb.WriteString(p.Text)
			}
		}
		return "| pattern " + q(sb.String())
	case "unpack":
		return "| unpack"
	case "linefmt":
		return "| line_format " + q(tplText(s.Tpl))
	case "decolorize":
		return "| decolorize"
	case "lblf":
		return "| " + s.Pred.Text("")
	case "lblfmt":
		var parts []string
		for _, r := range s.Renames {
			parts = append(parts, r[0]+"="+r[1])
		}
		for _, t := range s.Tpls {
			parts = append(parts, t.Dst+"="+q(tplText(t.T)))
		}
		return "| label_format " + strings.Join(parts, ", ")
	case "drop", "keep":
		return "| " + s.Kind + " " + namesAndMatchers(s.Labels, s.Matchers)
	case "distinct":
		return "| distinct " + strings.Join(s.Labels, ", ")
	}
	panic("stage kind " + s.Kind)
}

func (s LStage) Sexp() Sexp {
	switch s.Kind {
	case "lf":
		if s.Re != nil {
			return L(A("lf"), A(s.Op), B(s.Re.Text()), s.Re.Sexp())
		}
		return L(A("lf"), A(s.Op), B(s.Value))
	case "lfip":
		return L(A("lfip"), N(b2i(s.Neg)), B(s.Value))
	case "json":
		es := make([]Sexp, len(s.Paths))
		for i, p := range s.Paths {
			sel := make([]Sexp, len(p.Path))
			for j, x := range p.Path {
				if x.IsIdx {
					sel[j] = L(A("i"), N(int64(x.Idx)))
				} else {
					sel[j] = L(A("k"), B(x.Key))
				}
			}
			es[i] = L(B(p.Label), LS(sel))
		}
		return L(A("json"), bsList(s.Labels), LS(es))
	case "logfmt":
		es := make([]Sexp, len(s.Keys))
		for i, k := range s.Keys {
			es[i] = L(B(k[0]), B(k[1]))
		}
		return L(A("logfmt"), bsList(s.Labels), LS(es))
	case "regexp":
		// submatch index -> label; an unnamed group ("") takes an index and exposes nothing
		var mp []Sexp
		for i, g := range s.Groups {
			if g != "" {
				mp = append(mp, L(N(int64(i+1)), B(g)))
			}
		}
		return L(A("regexp"), s.Re.Sexp(), N(int64(len(s.Groups))), LS(mp))
	case "pattern":
		ps := make([]Sexp, len(s.Pattern))
		for i, p := range s.Pattern {
			if p.Cap {
				ps[i] = L(A("cap"), B(p.Text))
			} else {
				ps[i] = L(A("lit"), B(p.Text))
			}
		}
		return L(A("pattern"), LS(ps))
	case "unpack", "decolorize":
		return L(A(s.Kind))
	case "linefmt":
		return L(A("linefmt"), tplSexp(s.Tpl))
	case "lblf":
		return L(A("lblf"), s.Pred.Sexp())
	case "lblfmt":
		rs := make([]Sexp, len(s.Renames))
		for i, r := range s.Renames {
			rs[i] = L(B(r[0]), B(r[1]))
		}
		ts := make([]Sexp, len(s.Tpls))
		for i, t := range s.Tpls {
			ts[i] = L(B(t.Dst), tplSexp(t.T))
		}
		return L(A("lblfmt"), LS(rs), LS(ts))
	case "drop", "keep":
		return L(A(s.Kind), bsList(s.Labels), matchersSexp(s.Matchers))
	case "distinct":
		xs := []Sexp{A("distinct")}
		for _, l := range s.Labels {
			xs = append(xs, B(l))
		}
		return LS(xs)
	}
	panic("stage kind " + s.Kind)
}

func logQueryText(sel []LMatcher, stages []LStage) string {
	parts := make([]string, len(sel))
	for i, m := range sel {
		parts[i] = m.Text()
	}
	s := "{" + strings.Join(parts, ", ") + "}"
	for _, st := range stages {
		s += " " + st.Text()
	}
	return s
}

func logQuerySexp(sel []LMatcher, stages []LStage) Sexp {
	st := make([]Sexp, len(stages))
	for i, s := range stages {
		st[i] = s.Sexp()
	}
	return L(A("log"), matchersSexp(sel), LS(st))
}

func recsSexp(recs []LRec) Sexp {
	out := make([]Sexp, len(recs))
	for i, r := range recs {
		at := make([]Sexp, len(r.Attrs))
		for j, kv := range r.Attrs {
			at[j] = L(B(kv[0]), B(kv[1]))
		}
		out[i] = L(A("rec"), N(r.TS), B(r.Body), LS(at))
	}
	return LS(out)
}

func capsSexp(label, line []string) Sexp {
	f := func(xs []string) Sexp {
		out := make([]Sexp, len(xs))
		for i, x := range xs {
			out[i] = A(x)
		}
		return LS(out)
	}
	return L(A("caps"), f(label), f(line))
}

func (t LogCase) Req() Sexp {
	return L(A("logeval"), capsSexp(t.CapsLabel, t.CapsLine), logQuerySexp(t.Sel, t.Stages), recsSexp(t.Recs), N(int64(t.Limit)))
}

// ---- mock storage backend with configurable capabilities ----

var opOf = map[string]logql.BinOp{"eq": logql.OpEq, "ne": logql.OpNotEq, "re": logql.OpRe, "nre": logql.OpNotRe}

type mockQuerier struct {
	capsLabel, capsLine []string
	recs                []LRec
	calls               int
	// honourBounds: return only the records inside the [start, end] the engine asks for (a storage is
	// entitled to do that; the Docker backend passes the bounds on as since/until)
	honourBounds bool
	shareAttrs   bool
}

func (m *mockQuerier) Capabilities() (c logqlengine.QuerierCapabilities) {
	for _, o := range m.capsLabel {
		c.Label.Add(opOf[o])
	}
	for _, o := range m.capsLine {
		c.Line.Add(opOf[o])
	}
	return c
}

func mockRecLabels(r LRec) map[string]string {
	ls := map[string]string{}
	if r.Body != "" {
		ls["msg"] = r.Body
	}
	for _, kv := range r.Attrs {
		ls[kv[0]] = kv[1]
	}
	return ls
}

func (m *mockQuerier) SelectLogs(ctx context.Context, start, end otelstorage.Timestamp, p logqlengine.SelectLogsParams) (iterators.Iterator[logstorage.Record], error) {
	m.calls++
	shared := map[string]pcommon.Map{}
	var out []logstorage.Record
	for _, r := range m.recs {
		if m.honourBounds && (r.TS < int64(start) || r.TS > int64(end)) {
			continue
		}
		ls := mockRecLabels(r)
		ok := true
		for _, lm := range p.Labels {
			v := ls[string(lm.Label)]
			switch lm.Op {
			case logql.OpEq:
				ok = ok && v == lm.Value
			case logql.OpNotEq:
				ok = ok && v != lm.Value
			case logql.OpRe:
				ok = ok && lm.Re.MatchString(v)
			case logql.OpNotRe:
				ok = ok && !lm.Re.MatchString(v)
			}
		}
		for _, lf := range p.Line {
			switch lf.Op {
			case logql.OpEq:
				ok = ok && strings.Contains(r.Body, lf.Value)
			case logql.OpNotEq:
				ok = ok && !strings.Contains(r.Body, lf.Value)
			case logql.OpRe:
				ok = ok && lf.Re.MatchString(r.Body)
			case logql.OpNotRe:
				ok = ok && !lf.Re.MatchString(r.Body)
			}
		}
		if !ok {
			continue
		}
		var attrs pcommon.Map
		key := fmt.Sprint(r.Attrs)
		if prev, ok := shared[key]; ok && m.shareAttrs {
			attrs = prev
		} else {
			attrs = pcommon.NewMap()
			for _, kv := range r.Attrs {
				attrs.PutStr(kv[0], kv[1])
			}
			shared[key] = attrs
		}
		out = append(out, logstorage.Record{Timestamp: otelstorage.Timestamp(r.TS), Body: r.Body, Attrs: otelstorage.Attrs(attrs)})
	}
	return iterators.Slice(out), nil
}

// normalisers applied to label values the model cannot render byte-for-byte (nested JSON values)
func normLabelValue(v string) string { return v }

// logImpl evaluates the case on the real engine and canonicalises the result.
func logImpl(t LogCase, normNested bool) Sexp {
	mq := &mockQuerier{capsLabel: t.CapsLabel, capsLine: t.CapsLine, recs: t.Recs, shareAttrs: t.Share}
	data, err := evalQuery(mq, logQueryText(t.Sel, t.Stages), 1, 1<<62, 0, t.Limit)
	if err != nil {
		return L(A("err"), A(errClassOf(err)))
	}
	// streams that differ only in __error_details__ (not compared) are merged
	type acc struct {
		ls map[string]string
		es []lokiEntry
	}
	merged := map[string]*acc{}
	var order []string
	for _, s := range data.StreamsResult.Result {
		ls := map[string]string{}
		for k, v := range s.Stream.Value {
			if k == "__error_details__" {
				continue
			}
			if normNested {
				v = normLabelValue(v)
			}
			ls[k] = v
		}
		key := labelsSexp(ls).String()
		if _, ok := merged[key]; !ok {
			merged[key] = &acc{ls: ls}
			order = append(order, key)
		}
		merged[key].es = append(merged[key].es, toEntries(s.Values)...)
	}
	var streams []Sexp
	for _, key := range order {
		ls, es := merged[key].ls, merged[key].es
		sort.SliceStable(es, func(i, j int) bool {
			if es[i].T != es[j].T {
				return es[i].T < es[j].T
			}
			return es[i].V < es[j].V
		})
		xs := []Sexp{A("stream"), labelsSexp(ls)}
		for _, e := range es {
			xs = append(xs, L(A("e"), N(int64(e.T)), B(e.V)))
		}
		streams = append(streams, LS(xs))
	}
	sort.Slice(streams, func(i, j int) bool { return streams[i].String() < streams[j].String() })
	return LS(append([]Sexp{A("ok")}, streams...))
}
