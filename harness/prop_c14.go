package main

import (
	"fmt"
	"math/rand"
	"sort"
	"strings"
	"time"

	"github.com/docker/docker/api/types"

	"github.com/tdakkota/docker-logql/internal/dockerlog"
)

type c14Ctr struct {
	Fault string `json:"fault"`          // ok | open | stream
	Kind  int    `json:"kind,omitempty"` // stream fault: 0 read error, 1 truncated body, 2 daemon frame, 3 corrupt timestamp, 4 no space
	Pos   int    `json:"pos,omitempty"`  // byte offset (kinds 0,1: reduced modulo the admissible range) or frame index
}

type c14Sel struct {
	StageOk   bool     `json:"stage_ok"`
	ListFails bool     `json:"list_fails"`
	Ctrs      []c14Ctr `json:"ctrs"`
}

type c14Q struct {
	Kind string  `json:"kind"` // log range vecagg binop litop vector
	Sel  *c14Sel `json:"sel,omitempty"`
	Ok   bool    `json:"ok"`
	A    *c14Q   `json:"a,omitempty"`
	B    *c14Q   `json:"b,omitempty"`
}

type c14Case struct {
	Q       c14Q  `json:"q"`
	Instant bool  `json:"instant"`
	Shuffle int64 `json:"shuffle"` // seed of the completion order of the concurrent opens
}

func (s *c14Sel) Sexp() Sexp {
	cs := make([]Sexp, len(s.Ctrs))
	for i, c := range s.Ctrs {
		cs[i] = A(c.Fault)
	}
	return L(A("sel"), N(b2i(s.StageOk)), N(b2i(s.ListFails)), LS(cs))
}

func (q *c14Q) Sexp() Sexp {
	switch q.Kind {
	case "log":
		return L(A("log"), q.Sel.Sexp())
	case "range":
		return L(A("range"), q.Sel.Sexp(), N(b2i(q.Ok)))
	case "vecagg":
		return L(A("vecagg"), N(b2i(q.Ok)), q.A.Sexp())
	case "binop":
		return L(A("binop"), N(b2i(q.Ok)), q.A.Sexp(), q.B.Sexp())
	case "litop":
		return L(A("litop"), q.A.Sexp())
	}
	return L(A("vector"))
}

// sels lists the selections in build order.
func (q *c14Q) sels(out *[]*c14Sel) {
	switch q.Kind {
	case "log", "range":
		*out = append(*out, q.Sel)
	case "vecagg", "litop":
		q.A.sels(out)
	case "binop":
		q.A.sels(out)
		q.B.sels(out)
	}
}

func (q *c14Q) text(k *int, instant bool) string {
	selText := func(s *c14Sel) string {
		t := fmt.Sprintf(`{s="%d"}`, *k)
		*k++
		if !s.StageOk {
			t += ` | line_format "{{"`
		}
		return t
	}
	switch q.Kind {
	case "log":
		return selText(q.Sel)
	case "range":
		rng := "[10s]"
		if instant {
			rng = "[30s]"
		}
		op := "count_over_time"
		if !q.Ok {
			op = "absent_over_time"
		}
		return op + "(" + selText(q.Sel) + rng + ")"
	case "vecagg":
		return "sum by (container) (" + q.A.text(k, instant) + ")"
	case "binop":
		mod := ""
		if !q.Ok {
			mod = " on (container)"
		}
		a := q.A.text(k, instant)
		b := q.B.text(k, instant)
		return "(" + a + ") +" + mod + " (" + b + ")"
	case "litop":
		return "(" + q.A.text(k, instant) + ") * 2"
	}
	return "vector(1)"
}

func (q *c14Q) hasFault() bool {
	switch q.Kind {
	case "log", "range":
		if !q.Sel.StageOk || q.Sel.ListFails || (q.Kind == "range" && !q.Ok) {
			return true
		}
		for _, c := range q.Sel.Ctrs {
			if c.Fault != "ok" {
				return true
			}
		}
		return false
	case "vecagg":
		return !q.Ok || q.A.hasFault()
	case "litop":
		return q.A.hasFault()
	case "binop":
		return !q.Ok || q.A.hasFault() || q.B.hasFault()
	}
	return false
}

const c14T0 = int64(1700000000)

func c14Logs(c c14Ctr, k, i int) ([]byte, int, bool) {
	recs := []c03Rec{}
	for j, off := range []int64{1, 5, 15} {
		recs = append(recs, c03Rec{TS: tsText((c14T0+off)*1e9 + int64(i)), Typ: byte(1 + j%2), Body: []byte(fmt.Sprintf("k%d-c%d-%d", k, i, j))})
	}
	failAt, hasFail := -1, false
	if c.Fault == "stream" {
		j := c.Pos % len(recs)
		switch c.Kind {
		case 2:
			recs[j].Typ = 3
		case 3:
			recs[j].TS = "2023-99-14T22:13:20Z"
		case 4:
			recs[j].Raw = []byte("nospace")
		}
	}
	var b []byte
	var bodyStart, bodyEnd []int
	for _, r := range recs {
		f := c03Frame(r)
		bodyStart = append(bodyStart, len(b)+8)
		b = append(b, f...)
		bodyEnd = append(bodyEnd, len(b))
	}
	if c.Fault == "stream" {
		switch c.Kind {
		case 0:
			failAt, hasFail = c.Pos%(len(b)+1), true
		case 1:
			j := c.Pos % len(recs)
			cut := bodyStart[j] + (c.Pos/len(recs))%(bodyEnd[j]-bodyStart[j])
			b = b[:cut]
		}
	}
	return b, failAt, hasFail
}

func c14Impl(t c14Case) Sexp {
	var sels []*c14Sel
	t.Q.sels(&sels)
	fd := &fakeDocker{Logs: map[string][]byte{}, OpenErr: map[string]error{}, ReadFail: map[string]int{}, ListErrAt: map[int]bool{}}
	rng := rand.New(rand.NewSource(t.Shuffle))
	for k, s := range sels {
		if s.ListFails {
			fd.ListErrAt[k] = true
		}
		var ids []string
		for i, c := range s.Ctrs {
			id := fmt.Sprintf("%d-%d", k, i)
			ids = append(ids, id)
			fd.Inventory = append(fd.Inventory, types.Container{ID: id, Names: []string{"/c" + id}, Labels: map[string]string{"s": fmt.Sprint(k)}})
			logs, failAt, hasFail := c14Logs(c, k, i)
			fd.Logs[id] = logs
			if hasFail {
				fd.ReadFail[id] = failAt
			}
			if c.Fault == "open" {
				fd.OpenErr[id] = errOpen
			}
		}
		rng.Shuffle(len(ids), func(a, b int) { ids[a], ids[b] = ids[b], ids[a] })
		fd.Order = append(fd.Order, ids...)
	}
	q, _ := dockerlog.NewQuerier(fd)
	k := 0
	text := t.Q.text(&k, t.Instant)
	start, end, step := c14T0*1e9, (c14T0+20)*1e9, 10*time.Second
	if t.Instant && t.Q.Kind != "log" {
		start, step = end, 0
	}
	_, err := evalQuery(q, text, start, end, step, -1)
	class := "ok"
	if err != nil {
		class = errClassOf(err)
	}
	opened := fd.OpenedSorted()
	var closed []string
	fd.mu.Lock()
	for id, n := range fd.Closed {
		if n > 0 {
			closed = append(closed, id)
		}
	}
	fd.mu.Unlock()
	sort.Strings(closed)
	toS := func(xs []string) Sexp {
		out := make([]Sexp, len(xs))
		for i, x := range xs {
			out[i] = A(x)
		}
		return LS(out)
	}
	return L(A(class), toS(opened), toS(closed))
}

func c14GenSel(r *rand.Rand, faulty bool) *c14Sel {
	s := &c14Sel{StageOk: true}
	n := r.Intn(5)
	if r.Intn(3) == 0 {
		n = 1
	}
	for i := 0; i < n; i++ {
		s.Ctrs = append(s.Ctrs, c14Ctr{Fault: "ok"})
	}
	if faulty {
		switch k := r.Intn(10); {
		case k == 0:
			s.StageOk = false
		case k == 1:
			s.ListFails = true
		case k <= 4 && n > 0:
			s.Ctrs[r.Intn(n)] = c14Ctr{Fault: "open"}
		case n > 0:
			s.Ctrs[r.Intn(n)] = c14Ctr{Fault: "stream", Kind: r.Intn(5), Pos: r.Intn(1000)}
		default:
			s.ListFails = true
		}
	}
	return s
}

func c14GenQ(r *rand.Rand, depth int, faultAt *int, metricOnly bool) *c14Q {
	leafFault := func() bool {
		*faultAt--
		return *faultAt == 0
	}
	k := r.Intn(8)
	if depth <= 0 {
		k = r.Intn(3)
	}
	switch {
	case k <= 2 || depth <= 0:
		q := &c14Q{Kind: "range", Ok: true}
		f := leafFault()
		q.Sel = c14GenSel(r, f && r.Intn(6) != 0)
		if f && !q.hasFault() {
			q.Ok = false
		}
		return q
	case k == 3:
		return &c14Q{Kind: "vecagg", Ok: true, A: c14GenQ(r, depth-1, faultAt, true)}
	case k == 4:
		return &c14Q{Kind: "litop", Ok: true, A: c14GenQ(r, depth-1, faultAt, true)}
	case k == 5 && r.Intn(2) == 0:
		return &c14Q{Kind: "vector", Ok: true}
	default:
		q := &c14Q{Kind: "binop", Ok: true}
		q.A = c14GenQ(r, depth-1, faultAt, true)
		q.B = c14GenQ(r, depth-1, faultAt, true)
		if q.A.Kind == "vector" && q.B.Kind == "vector" {
			q.B = c14GenQ(r, 0, faultAt, true)
		}
		if r.Intn(8) == 0 {
			q.Ok = false
		}
		return q
	}
}

func c14Gen(r *rand.Rand) c14Case {
	t := c14Case{Instant: r.Intn(3) == 0, Shuffle: r.Int63()}
	faultAt := 0
	if r.Intn(5) != 0 {
		faultAt = 1 + r.Intn(3) // the n-th leaf carries the single fault (if it exists)
	}
	if r.Intn(4) == 0 {
		t.Q = c14Q{Kind: "log", Ok: true, Sel: c14GenSel(r, faultAt > 0)}
	} else {
		t.Q = *c14GenQ(r, 2, &faultAt, true)
	}
	return t
}

func c14Shrink(t c14Case) []c14Case {
	var out []c14Case
	var rec func(q *c14Q, rebuild func(*c14Q))
	rec = func(q *c14Q, rebuild func(*c14Q)) {
		switch q.Kind {
		case "vecagg", "litop":
			rebuild(q.A)
			rec(q.A, func(n *c14Q) { c := *q; c.A = n; rebuild(&c) })
		case "binop":
			rebuild(q.A)
			rebuild(q.B)
			rec(q.A, func(n *c14Q) { c := *q; c.A = n; rebuild(&c) })
			rec(q.B, func(n *c14Q) { c := *q; c.B = n; rebuild(&c) })
		case "log", "range":
			for i := range q.Sel.Ctrs {
				if q.Sel.Ctrs[i].Fault != "ok" {
					continue
				}
				s := *q.Sel
				s.Ctrs = append(append([]c14Ctr{}, q.Sel.Ctrs[:i]...), q.Sel.Ctrs[i+1:]...)
				c := *q
				c.Sel = &s
				rebuild(&c)
			}
		}
	}
	rec(&t.Q, func(n *c14Q) { c := t; c.Q = *n; out = append(out, c) })
	return out
}

func init() {
	props["C14"] = func(c *Ctx) {
		c.Res.Rule = "case = query shape (log query; count_over_time instant/range; sum by over it; binary operation over two selections; literal operand; vector(); unsupported range operation / modifiers; invalid stage) x per-selection inventory of 0-4 containers x at most one fault (ContainerList error, open error of container i, read error at byte b, truncated body, daemon-error frame, corrupt timestamp, missing separator at frame j) x completion order of the opens; observed: error class, readers opened, readers closed; non-trivial = a fault is present; distinct by request line + completion order"
		spec := &Spec[c14Case]{
			What: "Resources.eval == Engine.Eval over dockerlog.Querier with fault injection (error class, opened = closed)",
			Gen:  c14Gen,
			Req:  func(t c14Case) Sexp { return L(A("resources"), t.Q.Sexp()) },
			Impl: c14Impl,
			// error or success, readers opened, readers closed; the error class only feeds the tags
			Equal: func(_ c14Case, impl, model Sexp) bool {
				norm := func(s Sexp) string {
					if s.IsL && len(s.List) == 3 && !s.List[0].IsL && s.List[0].Atom != "ok" {
						return L(A("err"), s.List[1], s.List[2]).String()
					}
					return s.String()
				}
				return norm(impl) == norm(model)
			},
			Shrink:     c14Shrink,
			Nontrivial: func(t c14Case, _ Sexp) bool { return t.Q.hasFault() },
			PropertyFails: func(t c14Case, impl, model Sexp) bool {
				if len(impl.List) != 3 {
					return true
				}
				leak := impl.List[1].String() != impl.List[2].String()
				swallowed := t.Q.hasFault() && impl.List[0].Atom == "ok"
				return leak || swallowed
			},
			Signature: func(t c14Case, impl, model Sexp) string {
				if len(impl.List) != 3 {
					return "crash"
				}
				switch {
				case impl.List[1].String() != impl.List[2].String():
					return "leak"
				case t.Q.hasFault() && impl.List[0].Atom == "ok":
					return "swallowed"
				}
				return "class-differs"
			},
			Tags: func(t c14Case, impl Sexp) []string {
				tags := []string{"c14:shape=" + t.Q.Kind, "c14:class=" + impl.Head()}
				if t.Instant {
					tags = append(tags, "c14:instant")
				}
				var sels []*c14Sel
				t.Q.sels(&sels)
				for _, s := range sels {
					for _, ct := range s.Ctrs {
						if ct.Fault == "stream" {
							tags = append(tags, fmt.Sprintf("c14:streamfault-kind=%d", ct.Kind))
						} else if ct.Fault == "open" {
							tags = append(tags, "c14:openfault")
						}
					}
				}
				return tags
			},
		}
		RunSpec(c, spec, c.Scale(3000, 60000))
		// exhaustive: single-selection shapes x every byte offset of a read error / every frame position
		var ex []c14Case
		for _, shape := range []string{"log", "range", "range-instant", "vecagg", "binop"} {
			for n := 1; n <= c.Scale(2, 4); n++ {
				for i := 0; i < n; i++ {
					for kind := 0; kind < 5; kind++ {
						maxPos := 3
						if kind == 0 {
							maxPos = 200
						} else if kind == 1 {
							maxPos = 40
						}
						for pos := 0; pos < maxPos; pos += 1 + kind%2*0 {
							s := &c14Sel{StageOk: true}
							for j := 0; j < n; j++ {
								s.Ctrs = append(s.Ctrs, c14Ctr{Fault: "ok"})
							}
							s.Ctrs[i] = c14Ctr{Fault: "stream", Kind: kind, Pos: pos}
							t := c14Case{Shuffle: int64(pos)}
							switch shape {
							case "log":
								t.Q = c14Q{Kind: "log", Ok: true, Sel: s}
							case "range":
								t.Q = c14Q{Kind: "range", Ok: true, Sel: s}
							case "range-instant":
								t.Q = c14Q{Kind: "range", Ok: true, Sel: s}
								t.Instant = true
							case "vecagg":
								t.Q = c14Q{Kind: "vecagg", Ok: true, A: &c14Q{Kind: "range", Ok: true, Sel: s}}
							case "binop":
								t.Q = c14Q{Kind: "binop", Ok: true, A: &c14Q{Kind: "range", Ok: true, Sel: &c14Sel{StageOk: true, Ctrs: []c14Ctr{{Fault: "ok"}}}}, B: &c14Q{Kind: "range", Ok: true, Sel: s}}
							}
							ex = append(ex, t)
						}
					}
				}
			}
		}
		c.CountN("c14:exhaustive-fault-positions", len(ex))
		RunCases(c, spec, ex)
		c.Res.ExhaustiveNote = "single-fault sweep: 5 shapes x 1..2(4) containers x faulty container x 5 stream-fault kinds x every byte offset (read error: 0..199 mod stream length; truncation: 40 offsets inside bodies) / every frame"
		_ = strings.Join
	}
}
