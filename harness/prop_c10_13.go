package main

import (
	"encoding/json"
	"fmt"
	"math"
	"math/rand"
	"strconv"
	"strings"
)

func metricSpec(what, prefix string, gen func(r *rand.Rand) MetricCase) *Spec[MetricCase] {
	return &Spec[MetricCase]{
		What:   what,
		Gen:    gen,
		Req:    func(t MetricCase) Sexp { return t.Req() },
		Impl:   metricImpl,
		Equal:  metricEqual,
		Shrink: metricShrink,
		Nontrivial: func(t MetricCase, impl Sexp) bool {
			s, _ := metricNonEmpty(impl)
			return s > 0
		},
		Signature: func(t MetricCase, impl, model Sexp) string {
			if impl.Head() == "nondeterministic" {
				return "nondeterministic"
			}
			return ""
		},
		Tags: func(t MetricCase, impl Sexp) []string { return metricTags(prefix, t, impl) },
	}
}

// metricRootBlame decides, for a case on which implementation and model disagree, whether the
// disagreement arises at the ROOT operator of the expression (the operator the property is about) or
// is inherited from an operand: if a direct operand already disagrees with the model when evaluated
// on its own, the root's property is not shown to fail on this input (the correspondence is broken
// further down: reported as no-failing-input-found); if every operand agrees and the whole does not,
// the root operator is wrong on these very inputs.
func metricRootBlame(c *Ctx) func(t MetricCase, impl, model Sexp) bool {
	return func(t MetricCase, impl, model Sexp) bool {
		if impl.Head() == "nondeterministic" || impl.Head() == "panic" || impl.Head() == "timeout" {
			return true
		}
		for _, ch := range []*MExpr{t.E.A, t.E.B} {
			if ch == nil || ch.Kind == "lit" {
				continue
			}
			tc := t
			tc.E = *ch
			mi := metricImpl(tc)
			mm, err := c.Drv.Ask(tc.Req())
			if err != nil {
				return true
			}
			if !metricEqual(tc, mi, mm) {
				return false
			}
		}
		return true
	}
}

// keepRoot makes shrinking keep the root operator of the expression (the operator the property is about):
// the kind of the root becomes part of the failure signature, and the shrinker only accepts candidates
// with the same signature
func keepRoot(spec *Spec[MetricCase]) {
	old := spec.Signature
	spec.Signature = func(t MetricCase, impl, model Sexp) string {
		s := ""
		if old != nil {
			s = old(t, impl, model)
		}
		if s != "" {
			return s // recorded findings keep their signature
		}
		return "root=" + t.E.Kind
	}
}

// c10IdentityFails: the series-identity property itself fails iff a label set occurs twice in the
// implementation's result or the label sets differ from the model's; values and sample times
// alone are not C10's business
func c10IdentityFails(impl, model Sexp) bool {
	if impl.Head() != "ok" {
		return true
	}
	shape := func(r mResult) (map[string]string, bool) {
		m := map[string]string{}
		for _, s := range r.Series {
			if _, dup := m[s.Labels]; dup {
				return nil, true
			}
			m[s.Labels] = "" // which steps a series has points at is the window's business (C09)
		}
		return m, false
	}
	a, dupA := shape(metricImplParse(impl))
	if dupA {
		return true
	}
	b, _ := shape(parseModelResult(model))
	if len(a) == 0 || len(b) == 0 {
		return false // presence or absence of everything is the window's business, not identity
	}
	if len(a) != len(b) {
		return true
	}
	for k, v := range a {
		if b[k] != v {
			return true
		}
	}
	return false
}

// records whose label sets are prefixes/concatenations of one another and repeat
func genC10Recs(r *rand.Rand) []LRec {
	sets := [][][2]string{
		{{"a", "bc"}}, {{"ab", "c"}}, {{"a", "b"}, {"c", ""}}, {{"a", ""}, {"bc", ""}}, {{"a", "bc"}, {"d", "x"}}, {{"a", "b"}, {"cd", "x"}},
		{{"a", "1"}, {"b", "2"}, {"c", "3"}, {"d", "4"}, {"e", "5"}, {"f", "6"}}, {}, {{"abc", ""}}, {{"", "abc"}},
	}
	if r.Intn(3) == 0 {
		// token soup: names and values from one small alphabet incl. the empty value, so that the token
		// streams name,value,name,value of different label sets coincide once anything is left out
		// ({a="",b=""} vs {a="b"}; {a="",b="x"} vs {a="b",x=""})
		sets = nil
		for k := 2 + r.Intn(4); k > 0; k-- {
			var set [][2]string
			for _, name := range distinctStrings(r, []string{"a", "b", "c", "ab", "bc", "x"}, 1+r.Intn(3)) {
				set = append(set, [2]string{name, pick(r, []string{"", "", "a", "b", "c", "ab", "bc", "x"})})
			}
			sets = append(sets, set)
		}
	}
	n := 2 + r.Intn(12)
	recs := make([]LRec, n)
	ts := mT0
	for i := range recs {
		ts += int64(r.Intn(2))
		set := sets[r.Intn(len(sets))]
		// permute the attribute order: same label set, different insertion order
		p := r.Perm(len(set))
		rec := LRec{TS: ts * 1e9, Body: pick(r, []string{"", "x"})}
		for _, j := range p {
			if set[j][0] == "" {
				continue
			}
			rec.Attrs = append(rec.Attrs, set[j])
		}
		recs[i] = rec
	}
	return recs
}

func genVagg(r *rand.Rand, depth int, inner func() *MExpr) *MExpr {
	e := &MExpr{Kind: "vagg", Op: pick(r, mVecOps), Group: genMGroup(r), GroupBefore: r.Intn(2) == 0}
	if depth > 1 && r.Intn(2) == 0 {
		e.A = genVagg(r, depth-1, inner)
	} else {
		e.A = inner()
	}
	return e
}

var c13Operands = []string{"2", "3", "5", "7", "11", "0.5", "0.25", "13"}
var c13Ops = []string{"or", "and", "unless", "eq", "ne", "gt", "ge", "lt", "le", "add", "sub", "mul", "div", "mod", "pow"}

func init() {
	props["C10"] = func(c *Ctx) {
		c.Res.Rule = "case = 2-13 records whose label sets are prefixes/concatenations of one another ({a=bc} vs {ab=c}, {a=b,c=} vs {a=,bc=}), one 6-label set, or (a third of the cases) random sets over a shared alphabet of names and values incl. the empty value ({a=,b=} vs {a=b}), all with permuted attribute order and repeated x count_over_time / sum by|without (...) over it / a by and a without naming the same label stacked either way x instant or range grid; every case evaluated 5x (20x thorough) to sample map iteration orders; compared with the model (series identified by label set) incl. the number of series per label set; non-trivial = at least 2 samples share a label set; distinct by request line"
		spec := metricSpec("Metric.eval (series identity) == Engine.Eval, repeated evaluations identical", "c10", func(r *rand.Rand) MetricCase {
			base := &MExpr{Kind: "range", Op: "count_over_time", RangeS: pick(r, []int64{2, 5, 10})}
			t := MetricCase{Recs: genC10Recs(r), Repeat: 5}
			if c.Thorough() {
				t.Repeat = 20
			}
			switch r.Intn(5) {
			case 4:
				// a `by` and a `without` that name the same label, stacked either way: the outer clause decides
				ls := distinctStrings(r, []string{"a", "ab", "c", "bc", "d"}, 2)
				inner := &MExpr{Kind: "vagg", Op: pick(r, []string{"sum", "count"}), Group: &MGroup{Without: false, Labels: ls}, A: base}
				outer := &MGroup{Without: true, Labels: ls[:1]}
				if r.Intn(2) == 0 {
					inner.Group, outer = &MGroup{Without: true, Labels: ls[:1]}, &MGroup{Without: false, Labels: ls}
				}
				t.E = MExpr{Kind: "vagg", Op: pick(r, []string{"max", "sum", "count"}), Group: outer, A: inner}
			case 0:
				t.E = *base
			case 1:
				// range aggregation with its own grouping under an outer aggregation: the label sets of the
				// inner series must stay what they are at every step
				for i := range t.Recs {
					t.Recs[i].Attrs = append(t.Recs[i].Attrs, [2]string{"v", fmt.Sprint(1 + i%5)})
				}
				inner := &MExpr{Kind: "range", Op: pick(r, []string{"max_over_time", "min_over_time", "first_over_time"}), RangeS: pick(r, []int64{1, 2}), Unwrap: &MUnwrap{Label: "v"},
					Group: &MGroup{Without: true, Labels: append(distinctStrings(r, []string{"a", "ab", "c", "d"}, 1), "v")}}
				t.E = MExpr{Kind: "vagg", Op: pick(r, []string{"sum", "count", "max"}), Group: &MGroup{Without: true, Labels: distinctStrings(r, []string{"a", "ab", "c", "bc", "d"}, 1)}, A: inner}
			default:
				g := &MGroup{Without: r.Intn(2) == 0, Labels: distinctStrings(r, []string{"a", "ab", "c", "bc", "d"}, 1+r.Intn(2))}
				t.E = MExpr{Kind: "vagg", Op: pick(r, []string{"sum", "count"}), Group: g, A: base}
			}
			genParams(r, &t)
			return t
		})
		// series identity may break at the root or in an operand (whose series the root then aggregates):
		// the property fails on this input iff it fails for the expression or one of its sub-expressions
		var identityFails func(t MetricCase, impl, model Sexp, depth int) bool
		identityFails = func(t MetricCase, impl, model Sexp, depth int) bool {
			if c10IdentityFails(impl, model) {
				return true
			}
			if depth == 0 {
				return false
			}
			for _, ch := range []*MExpr{t.E.A, t.E.B} {
				if ch == nil || ch.Kind == "lit" {
					continue
				}
				tc := t
				tc.E = *ch
				mm, err := c.Drv.Ask(tc.Req())
				if err != nil {
					return true
				}
				if identityFails(tc, metricImpl(tc), mm, depth-1) {
					return true
				}
			}
			return false
		}
		// ... or when every operand on its own agrees with the model and the whole does not (the operands'
		// series are then mis-identified only inside the combination, visible through the values)
		blame10 := metricRootBlame(c)
		spec.PropertyFails = func(t MetricCase, impl, model Sexp) bool {
			return identityFails(t, impl, model, 3) || ((t.E.A != nil || t.E.B != nil) && blame10(t, impl, model))
		}
		keepRoot(spec)
		spec.Nontrivial = func(t MetricCase, impl Sexp) bool {
			seen := map[string]bool{}
			for _, rec := range t.Recs {
				k := fmt.Sprint(mockRecLabels(rec))
				if seen[k] {
					return true
				}
				seen[k] = true
			}
			return false
		}
		RunSpec(c, spec, c.Scale(1500, 20000))
	}

	props["C11"] = func(c *Ctx) {
		c.Res.Rule = "case = vector aggregation nest up to depth 3 (sum avg min max count stddev stdvar with by/without lists: empty, duplicated, non-existent, partial; topk/bottomk with k around the group size; sort/sort_desc; a grouping list repeating a label over an inner grouping of the same size) over count_over_time / sum_over_time inputs with partially shared labels x instant or range grid; values distinct for topk/sort (ties are the recorded finding K2); non-trivial = non-empty result; distinct by request line"
		inner := func(r *rand.Rand) func() *MExpr {
			return func() *MExpr {
				e := genRangeExpr(r, true)
				switch r.Intn(4) {
				case 0:
					e.Op, e.Unwrap = "sum_over_time", &MUnwrap{Label: "v"}
				case 1:
					// a range aggregation with its own grouping clause under the vector aggregation
					e.Op, e.Unwrap = pick(r, []string{"max_over_time", "min_over_time", "avg_over_time", "first_over_time"}), &MUnwrap{Label: "v"}
					e.Group = &MGroup{Without: r.Intn(3) != 0, Labels: distinctStrings(r, append(mLabels, "v"), 1+r.Intn(2))}
				}
				return e
			}
		}
		spec := metricSpec("Metric.eval (vector aggregation) == Engine.Eval", "c11", func(r *rand.Rand) MetricCase {
			t := MetricCase{Recs: genMRecs(r, 2+r.Intn(14)), Repeat: 3}
			switch r.Intn(6) {
			case 5:
				// a list that repeats a label, over an inner grouping with as many labels as the list is long
				ls := distinctStrings(r, mLabels, 2)
				var in *MExpr
				if r.Intn(2) == 0 {
					in = &MExpr{Kind: "vagg", Op: pick(r, []string{"sum", "count"}), Group: &MGroup{Labels: ls}, A: &MExpr{Kind: "range", Op: "count_over_time", RangeS: 20}}
				} else {
					in = &MExpr{Kind: "range", Op: pick(r, []string{"max_over_time", "min_over_time"}), RangeS: 20, Unwrap: &MUnwrap{Label: "v"}, Group: &MGroup{Labels: ls}}
				}
				op := pick(r, []string{"sum", "count", "max", "topk"})
				if op == "topk" {
					// distinct values only (a tie is broken by the label-set key, which the model does not compute)
					in = &MExpr{Kind: "range", Op: "max_over_time", RangeS: 20, Unwrap: &MUnwrap{Label: "v"}, Group: &MGroup{Labels: ls}}
				}
				t.E = MExpr{Kind: "vagg", Op: op, Group: &MGroup{Labels: []string{ls[0], ls[0]}}, GroupBefore: r.Intn(2) == 0, A: in}
				if op == "topk" {
					t.E.Param = "1"
					c11DistinctValues(&t)
				}
			case 0: // topk / bottomk over distinct values
				k := 1 + r.Intn(4)
				t.E = MExpr{Kind: "vagg", Op: pick(r, []string{"topk", "bottomk"}), Param: fmt.Sprint(k), Group: genMGroup(r), A: &MExpr{Kind: "range", Op: "sum_over_time", RangeS: 20, Unwrap: &MUnwrap{Label: "v"}}}
				c11DistinctValues(&t)
			case 1:
				t.E = MExpr{Kind: "vagg", Op: pick(r, []string{"sort", "sort_desc"}), A: &MExpr{Kind: "range", Op: "sum_over_time", RangeS: 20, Unwrap: &MUnwrap{Label: "v"}}}
				c11DistinctValues(&t)
			case 2:
				// two levels of `without`: the outer grouping must not touch the label sets of the inner
				// series (topk/bottomk return them unchanged; the others aggregate exactly their group)
				ls := distinctStrings(r, mLabels, 2)
				var in *MExpr
				if r.Intn(2) == 0 {
					in = &MExpr{Kind: "vagg", Op: "sum", Group: &MGroup{Without: true, Labels: ls[:1]}, A: &MExpr{Kind: "range", Op: "sum_over_time", RangeS: 20, Unwrap: &MUnwrap{Label: "v"}}}
				} else {
					in = &MExpr{Kind: "range", Op: pick(r, []string{"max_over_time", "min_over_time"}), RangeS: pick(r, []int64{5, 20}), Unwrap: &MUnwrap{Label: "v"},
						Group: &MGroup{Without: true, Labels: []string{ls[0], "v"}}}
				}
				op := pick(r, []string{"topk", "bottomk", "count", "max", "avg"})
				t.E = MExpr{Kind: "vagg", Op: op, Group: &MGroup{Without: true, Labels: ls[1:]}, A: in}
				if op == "topk" || op == "bottomk" {
					t.E.Param = fmt.Sprint(1 + r.Intn(3))
					c11DistinctValues(&t)
				}
			default:
				t.E = *genVagg(r, 3, inner(r))
			}
			genParams(r, &t)
			return t
		})
		spec.PropertyFails = metricRootBlame(c)
		keepRoot(spec)
		RunSpec(c, spec, c.Scale(3000, 100000))
		if c.ReplayIn != "" {
			return
		}
		// K2 probe: topk(1, …) over two series with the same value
		k2 := MetricCase{E: MExpr{Kind: "vagg", Op: "topk", Param: "1", A: &MExpr{Kind: "range", Op: "count_over_time", RangeS: 10}},
			Recs:  []LRec{{TS: mT0 * 1e9, Body: "x", Attrs: [][2]string{{"c", "one"}}}, {TS: mT0 * 1e9, Body: "x", Attrs: [][2]string{{"c", "two"}}}},
			Start: mT0 * 1e9, End: mT0 * 1e9}
		seen := map[string]int{}
		for i := 0; i < 60; i++ {
			r := metricImplOnce(k2)
			if r.Err == "" && len(r.Series) == 1 {
				seen[r.Series[0].Labels]++
			} else {
				seen["unexpected:"+r.Sexp().String()]++
			}
		}
		c.Count(fmt.Sprintf("k2:distinct-answers=%d of 60 runs", len(seen)))
		if len(seen) != 1 {
			cj, _ := json.Marshal(k2)
			c.Fail(Failure{Kind: "failing-input", Signature: "K2", What: "determinism of topk at a tie", Case: cj,
				Request: k2.E.Text() + " over two series {c=one}, {c=two} with equal value, 60 runs",
				Impl:    fmt.Sprint(seen), Model: "Metric.vecStep keeps the first in arrival order; C11_topk_spec"})
		}
	}

	props["C12"] = func(c *Ctx) {
		c.Res.Rule = "case = binary operation (12 arithmetic/comparison operators with and without bool, and/or/unless) between two vectors with overlapping / disjoint / empty label sets (different selectors and groupings of count_over_time, vector(c)) an eighth of the cases: sum by (l) of all lines against sum by (l) of the lines containing a needle, either side the larger, under and/or/unless/-,/,>; a tenth: a comparison on top of a division or modulo by zero (a NaN operand); or between a vector and a scalar on either side (0, -2, 0.5, 3, 7) x instant or multi-step range grid; values in the exactly representable range; non-trivial = non-empty result; distinct by request line"
		spec := metricSpec("Metric.eval (binary operations) == Engine.Eval", "c12", func(r *rand.Rand) MetricCase {
			t := MetricCase{Recs: genMRecs(r, 2+r.Intn(12)), Repeat: 3}
			operand := func() *MExpr {
				switch r.Intn(6) {
				case 0:
					return &MExpr{Kind: "vector", Val: pick(r, []string{"0", "2", "3", "0.5"})}
				case 1, 2:
					return &MExpr{Kind: "vagg", Op: pick(r, []string{"sum", "count", "max"}), Group: &MGroup{Labels: distinctStrings(r, mLabels, 1+r.Intn(2))}, A: genRangeExpr(r, true)}
				default:
					return genRangeExpr(r, true)
				}
			}
			e := &MExpr{Kind: "bin", Op: pick(r, c13Ops)}
			isSet := e.Op == "and" || e.Op == "or" || e.Op == "unless"
			switch {
			case !isSet && r.Intn(3) == 0:
				e.A, e.B = operand(), &MExpr{Kind: "lit", Val: pick(r, []string{"0", "2", "0.5", "3", "7"})}
				if e.A.Kind == "vector" {
					e.A = genRangeExpr(r, true)
				}
			case !isSet && r.Intn(3) == 0:
				e.A, e.B = &MExpr{Kind: "lit", Val: pick(r, []string{"0", "2", "0.5", "3", "7", "-2"})}, operand()
				if e.B.Kind == "vector" {
					e.B = genRangeExpr(r, true)
				}
			default:
				e.A, e.B = operand(), operand()
				if r.Intn(2) == 0 { // same operand on both sides: full overlap
					cp := *e.A
					e.B = &cp
				}
			}
			if r.Intn(8) == 0 {
				// same label sets, different values, different sizes: one side counts all lines per series, the other
				// only the lines containing a needle (fewer series, smaller counts); either side may be the larger one.
				// What a set operation or an arithmetic operation keeps FROM WHICH SIDE shows only here
				// (summed by one label: the line itself is a label of every un-aggregated series, which would make the
				// two counts equal wherever the label sets match)
				by := &MGroup{Labels: []string{pick(r, mLabels)}}
				all := &MExpr{Kind: "vagg", Op: "sum", Group: by, A: &MExpr{Kind: "range", Op: "count_over_time", RangeS: 20}}
				some := &MExpr{Kind: "vagg", Op: "sum", Group: by, A: &MExpr{Kind: "range", Op: "count_over_time", RangeS: 20, Stages: []LStage{{Kind: "lf", Op: "eq", Value: pick(r, []string{"err", "x", "warn"})}}}}
				e = &MExpr{Kind: "bin", Op: pick(r, []string{"and", "and", "or", "unless", "sub", "div", "gt"}), A: all, B: some}
				if r.Intn(2) == 0 {
					e.A, e.B = some, all
				}
				for i := range t.Recs {
					t.Recs[i].Body = pick(r, []string{"err x", "info", "warn x", "plain", "err"})
				}
			}
			if r.Intn(10) == 0 {
				// a comparison (or arithmetic) on top of a division or modulo by zero: the operand is NaN, and NaN
				// compares false with everything, `!=` excepted
				nan := &MExpr{Kind: "bin", Op: pick(r, []string{"div", "mod"}), A: genRangeExpr(r, true), B: &MExpr{Kind: "lit", Val: "0"}, Paren: true}
				other := &MExpr{Kind: "lit", Val: pick(r, []string{"5", "0", "1", "-2"})}
				e = &MExpr{Kind: "bin", Op: pick(r, []string{"ge", "le", "gt", "lt", "eq", "ne", "add"}), A: nan, B: other}
				if r.Intn(2) == 0 {
					e.A, e.B = other, nan
				}
			}
			if binPrec[e.Op] == 3 && r.Intn(3) == 0 {
				e.BoolMod = true
			}
			if e.Op == "pow" { // keep exponents small integers
				e.B = &MExpr{Kind: "lit", Val: pick(r, []string{"0", "2", "3"})}
				if e.A.Kind == "lit" {
					e.A = genRangeExpr(r, true)
				}
			}
			t.E = *e
			genParams(r, &t)
			return t
		})
		spec.PropertyFails = metricRootBlame(c)
		keepRoot(spec)
		RunSpec(c, spec, c.Scale(3000, 100000))
	}

	props["C13"] = func(c *Ctx) {
		c.Res.Rule = "case = chain of 2-5 operands vector(v) joined by any of the 15 binary operators, operands from {2,3,5,7,11,13,0.5,0.25} so that regroupings change the value, generated as a random binary tree and rendered with exactly the parentheses the conventional reading needs (plus optional redundant ones); thorough: every operator chain of 2 and 3 operators over all 15 operators (3600 chains) in left-nested and right-nested tree shapes; evaluated by Engine.Eval and compared with the conventional evaluation by the model; a disagreement in which the implementation equals the all-right-associative reading of the same text is the recorded finding K1; non-trivial = two adjacent operators of equal precedence; distinct by request line"
		var genTree func(r *rand.Rand, n int) *MExpr
		genTree = func(r *rand.Rand, n int) *MExpr {
			if n == 1 {
				return &MExpr{Kind: "vector", Val: pick(r, c13Operands)}
			}
			k := 1 + r.Intn(n-1)
			e := &MExpr{Kind: "bin", Op: pick(r, c13Ops), A: genTree(r, k), B: genTree(r, n-k)}
			if r.Intn(8) == 0 {
				e.Paren = true
			}
			return e
		}
		spec := metricSpec("Metric.eval of the conventionally parsed chain == Engine.Eval of its text", "c13", func(r *rand.Rand) MetricCase {
			t := MetricCase{E: *genTree(r, 2+r.Intn(4)), Repeat: 1}
			t.Start, t.End, t.Step = mT0*1e9, mT0*1e9, 0
			return t
		})
		spec.Nontrivial = func(t MetricCase, impl Sexp) bool { return c13HasEqualPrecNeighbours(&t.E) }
		// float64 artefacts (inexact quotients under % or comparisons, huge powers) are not precedence
		// errors: the implementation also passes if it equals the float64 evaluation of the same
		// conventional tree (an independent 30-line evaluator in the harness)
		floatAgrees := func(e *MExpr, impl Sexp) bool {
			if impl.Head() != "ok" {
				return false
			}
			v, present := c13FloatEval(e)
			got := metricImplParse(impl)
			if !present {
				return len(got.Series) == 0
			}
			return len(got.Series) == 1 && len(got.Series[0].Points) == 1 && floatClose(got.Series[0].Points[0].V, v)
		}
		spec.Equal = func(t MetricCase, impl, model Sexp) bool {
			return metricEqual(t, impl, model) || floatAgrees(&t.E, impl)
		}
		spec.Signature = func(t MetricCase, impl, model Sexp) string {
			// K1: the implementation evaluates the all-right-associative reading of the same text
			alt := c13RightReading(t.E.Text())
			if alt.Kind != "" && floatAgrees(alt, impl) {
				return "K1"
			}
			return ""
		}
		spec.Tags = func(t MetricCase, impl Sexp) []string {
			return []string{fmt.Sprintf("c13:operands=%d", strings.Count(t.E.Text(), "vector("))}
		}
		RunSpec(c, spec, c.Scale(3000, 100000))
		if c.Thorough() && c.ReplayIn == "" {
			var ex []MetricCase
			v := func(s string) *MExpr { return &MExpr{Kind: "vector", Val: s} }
			for _, o1 := range c13Ops {
				for _, o2 := range c13Ops {
					ex = append(ex,
						MetricCase{E: MExpr{Kind: "bin", Op: o2, A: &MExpr{Kind: "bin", Op: o1, A: v("7"), B: v("3")}, B: v("2")}, Start: mT0 * 1e9, End: mT0 * 1e9},
						MetricCase{E: MExpr{Kind: "bin", Op: o1, A: v("7"), B: &MExpr{Kind: "bin", Op: o2, A: v("3"), B: v("2")}}, Start: mT0 * 1e9, End: mT0 * 1e9})
					for _, o3 := range c13Ops {
						ex = append(ex,
							MetricCase{E: MExpr{Kind: "bin", Op: o3, A: &MExpr{Kind: "bin", Op: o2, A: &MExpr{Kind: "bin", Op: o1, A: v("7"), B: v("3")}, B: v("2")}, B: v("5")}, Start: mT0 * 1e9, End: mT0 * 1e9},
							MetricCase{E: MExpr{Kind: "bin", Op: o1, A: v("7"), B: &MExpr{Kind: "bin", Op: o2, A: v("3"), B: &MExpr{Kind: "bin", Op: o3, A: v("2"), B: v("5")}}}, Start: mT0 * 1e9, End: mT0 * 1e9})
					}
				}
			}
			c.CountN("c13:exhaustive-chains", len(ex))
			RunCases(c, spec, ex)
			c.Res.ExhaustiveNote = "all 15^2 two-operator and 15^3 three-operator chains, each as the left-nested and the right-nested tree"
		}
	}
}

// c11DistinctValues gives every record a distinct unwrap value so that topk/sort have no ties.
func c11DistinctValues(t *MetricCase) {
	for i := range t.Recs {
		var attrs [][2]string
		for _, kv := range t.Recs[i].Attrs {
			if kv[0] != "v" {
				attrs = append(attrs, kv)
			}
		}
		// powers of two: all subset sums are distinct
		t.Recs[i].Attrs = append(attrs, [2]string{"v", fmt.Sprint(int64(1) << uint(i%20))})
	}
}

func c13HasEqualPrecNeighbours(e *MExpr) bool {
	if e.Kind != "bin" {
		return false
	}
	for _, ch := range []*MExpr{e.A, e.B} {
		if ch.Kind == "bin" && binPrec[ch.Op] == binPrec[e.Op] {
			return true
		}
		if c13HasEqualPrecNeighbours(ch) {
			return true
		}
	}
	return false
}

// c13RightReading parses the chain text with the same precedences but with every operator
// right-associative (what the implementation's parser does): used to recognise K1.
func c13RightReading(text string) *MExpr {
	toks := strings.Fields(strings.NewReplacer("(", " ( ", ")", " ) ").Replace(text))
	pos := 0
	symOp := map[string]string{}
	for k, v := range binOpText {
		symOp[v] = k
	}
	var parsePrimary func() *MExpr
	var parseBin func(minPrec int) *MExpr
	parsePrimary = func() *MExpr {
		if pos >= len(toks) {
			return nil
		}
		switch t := toks[pos]; {
		case t == "vector":
			// vector ( v )
			if pos+3 >= len(toks) {
				return nil
			}
			v := toks[pos+2]
			pos += 4
			return &MExpr{Kind: "vector", Val: v}
		case t == "(":
			pos++
			e := parseBin(0)
			if e == nil || pos >= len(toks) || toks[pos] != ")" {
				return nil
			}
			pos++
			e.Paren = true
			return e
		}
		return nil
	}
	parseBin = func(minPrec int) *MExpr {
		left := parsePrimary()
		if left == nil {
			return nil
		}
		for pos < len(toks) {
			op, ok := symOp[toks[pos]]
			if !ok || binPrec[op] < minPrec {
				break
			}
			pos++
			right := parseBin(binPrec[op]) // same precedence continues to the right: right-associative
			if right == nil {
				return nil
			}
			left = &MExpr{Kind: "bin", Op: op, A: left, B: right}
		}
		return left
	}
	e := parseBin(0)
	if e == nil || pos != len(toks) {
		return &MExpr{}
	}
	return e
}

// c13FloatEval evaluates a tree of vector(c) operands with float64 arithmetic, mirroring the value
// semantics of sample_op.go / bin_op.go for single-series vectors: (value, series present).
func c13FloatEval(e *MExpr) (float64, bool) {
	switch e.Kind {
	case "vector", "lit":
		f, _ := strconv.ParseFloat(e.Val, 64)
		return f, true
	case "bin":
		l, lp := c13FloatEval(e.A)
		r, rp := c13FloatEval(e.B)
		switch e.Op {
		case "and":
			return l, lp && rp
		case "or":
			if lp {
				return l, true
			}
			return r, rp
		case "unless":
			return l, lp && !rp
		}
		if !lp || !rp {
			return 0, false
		}
		b := func(v bool) (float64, bool) {
			if v {
				return 1, true
			}
			return 0, !e.BoolMod
		}
		switch e.Op {
		case "add":
			return l + r, true
		case "sub":
			return l - r, true
		case "mul":
			return l * r, true
		case "div":
			if r == 0 {
				return math.NaN(), true
			}
			return l / r, true
		case "mod":
			if r == 0 {
				return math.NaN(), true
			}
			return math.Mod(l, r), true
		case "pow":
			return math.Pow(l, r), true
		case "eq":
			return b(l == r)
		case "ne":
			return b(l != r)
		case "gt":
			return b(l > r)
		case "ge":
			return b(l >= r)
		case "lt":
			return b(l < r)
		case "le":
			return b(l <= r)
		}
	}
	return 0, false
}
