package main

import (
	"bufio"
	"fmt"
	"io"
	"os"
	"os/exec"
	"strings"
	"time"
)

var (
	driverReplyTimeout = 90 * time.Second
	driverHangFile     = "/verif/.build/driver-hang.txt"
)

// Driver is the Lean model behind a line protocol.
type Driver struct {
	cmd *exec.Cmd
	in  io.WriteCloser
	out *bufio.Reader
}

func StartDriver(path string) (*Driver, error) {
	cmd := exec.Command(path)
	in, err := cmd.StdinPipe()
	if err != nil {
		return nil, err
	}
	out, err := cmd.StdoutPipe()
	if err != nil {
		return nil, err
	}
	if err := cmd.Start(); err != nil {
		return nil, err
	}
	return &Driver{cmd: cmd, in: in, out: bufio.NewReaderSize(out, 1<<20)}, nil
}

// Ask sends one request and reads one reply.
func (d *Driver) Ask(req Sexp) (Sexp, error) {
	r, err := d.AskBatch([]Sexp{req})
	if err != nil {
		return Sexp{}, err
	}
	return r[0], nil
}

// AskBatch pipelines many requests.
func (d *Driver) AskBatch(reqs []Sexp) ([]Sexp, error) {
	errc := make(chan error, 1)
	go func() {
		w := bufio.NewWriterSize(d.in, 1<<20)
		for _, r := range reqs {
			if _, err := w.WriteString(r.String()); err != nil {
				errc <- err
				return
			}
			w.WriteByte('\n')
		}
		errc <- w.Flush()
	}()
	out := make([]Sexp, 0, len(reqs))
	type lineOrErr struct {
		line string
		err  error
	}
	lines := make(chan lineOrErr, 64)
	go func() {
		for range reqs {
			line, err := d.out.ReadString('\n')
			lines <- lineOrErr{line, err}
			if err != nil {
				return
			}
		}
	}()
	for i := range reqs {
		select {
		case l := <-lines:
			if l.err != nil {
				return nil, fmt.Errorf("driver read: %w (request %d: %.2000s)", l.err, i, reqs[i].String())
			}
			out = append(out, ParseSexp(strings.TrimRight(l.line, "\n")))
		case <-time.After(driverReplyTimeout):
			// the model does not answer: a defect of the model (or an input outside what it supports), never
			// silently waited for
			_ = d.cmd.Process.Kill()
			_ = os.WriteFile(driverHangFile, []byte(reqs[i].String()+"\n"), 0o644)
			return nil, fmt.Errorf("driver gave no reply within %s to request %d (saved to %s): %.2000s", driverReplyTimeout, i, driverHangFile, reqs[i].String())
		}
	}
	if err := <-errc; err != nil {
		return nil, err
	}
	return out, nil
}

func (d *Driver) Close() {
	d.in.Close()
	d.cmd.Wait()
}
