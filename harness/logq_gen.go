package main

import (
	"fmt"
	"math/rand"
	"strconv"
	"strings"
)

var (
	lgLabels = []string{"c", "d", "a", "zz", "lvl", "n"}
	lgValues = []string{"x", "y", "xy", "", "5", "2.5", "10", "1s", "250ms", "5KB", "10.0.0.1", "abc", "warn", "1m30s", "1KiB", "10.0.0.200", "1700000000", "17000", "-1700", "1700000000000"}
	lgWords  = []string{"error", "info", "x", "xy", "a=1", `b="q r"`, "lvl=warn", "10.0.0.1", "192.168.1.20", "999.1.1.1", "1.2.3.4.5",
		"42", "2.5", "1s", "5KB", "\xff", "cafe1.2.3.4", "at 12:30:45", "n=5", "d=250ms", "GET /a/b", "c=xy", "zz=", "ip=10.0.0.200", "-", "c=1700000000", "n=17000", "lvl=1700000000000"}
	lgNeedles = []string{"x", "xy", "err", "info", "", "a=", "10.0", "=", "q r", "\xff", " "}
	lgNums    = []struct {
		text string
		q    [2]int64
	}{{"5", [2]int64{5, 1}}, {"2.5", [2]int64{5, 2}}, {"10", [2]int64{10, 1}}, {"0", [2]int64{0, 1}}, {"42", [2]int64{42, 1}}, {"1", [2]int64{1, 1}}, {"0.5", [2]int64{1, 2}}}
	lgDurs = []struct {
		text string
		ns   int64
	}{{"1s", 1e9}, {"250ms", 250e6}, {"1m", 60e9}, {"90s", 90e9}, {"2h", 7200e9}}
	lgBytes = []struct {
		text string
		n    int64
	}{{"5KB", 5000}, {"1KiB", 1024}, {"10B", 10}, {"2MB", 2000000}, {"1000B", 1000}}
	lgIPs   = []string{"10.0.0.1", "10.0.0.0/24", "10.0.0.1-10.0.0.220", "192.168.1.20", "192.168.0.0/16", "10.0.0.200"}
	lgCmps  = []string{"eq", "ne", "gt", "ge", "lt", "le"}
	lgStrOp = []string{"eq", "ne", "re", "nre"}
)

func pick[T any](r *rand.Rand, xs []T) T { return xs[r.Intn(len(xs))] }

// lgHostileNums: label values at the edges of the numeric, duration and byte-size readers (non-finite
// floats — NaN, Inf, 1e400 — and digit separators are outside the environment models and not generated)
var lgHostileNums = []string{"1e-400", "1e308", "1.7976931348623157e308", "9223372036854775807", "9223372036854775808", "-9223372036854775808",
	"18446744073709551615", "18446744073709551616", "99999999999999999999", "+5", "-5", ".5", "5.", "0x10", "1e", "e5", "--5", "5 ", " 5",
	"2562047h", "2562048h", "9223372036854775807ns", "9223372036854775808ns", "1.5h", ".5s", "1h1", "h", "-1s", "+1s", "1d", "1w", "0", "00", "-0",
	"16EiB", "15EiB", "18446744073709551615B", "18446744073709551616B", "1.5KB", "1 KB", "1kb", "1KiB", "1Ki", "1E", "1e3KB", "-1KB", "KB", "1 B", "1,5KB",
	"255.255.255.255", "256.0.0.1", "1.2.3", "1.2.3.4.5", "01.2.3.4", "::1", "fe80::1:2", "1:2:3:4:5:6:7:8", "1:2:3:4:5:6:7", "1.2.3.4/33", "1.2.3.4/0", "1.2.3.4-1.2.3.3"}

// recValue: a label value of a record; one in eight is a hostile number
func recValue(r *rand.Rand) string {
	if r.Intn(8) == 0 {
		return pick(r, lgHostileNums)
	}
	return pick(r, lgValues)
}

func genLine(r *rand.Rand) string {
	n := 1 + r.Intn(4)
	ws := make([]string, n)
	for i := range ws {
		ws[i] = pick(r, lgWords)
	}
	return strings.Join(ws, " ")
}

func genValueRe(r *rand.Rand, pool []string) *Re {
	return anchored(r, genValueRe0(r, pool))
}

func genValueRe0(r *rand.Rand, pool []string) *Re {
	v := pick(r, pool)
	switch r.Intn(5) {
	case 0:
		return reLit(v)
	case 1:
		if len(v) > 1 {
			return reLit(v[:len(v)-1])
		}
		return &Re{Kind: "star", A: &Re{Kind: "any"}}
	case 2:
		return &Re{Kind: "seq", A: reLit(v[:len(v)/2]), B: &Re{Kind: "star", A: &Re{Kind: "any"}}}
	case 3:
		return &Re{Kind: "alt", A: reLit(v), B: reLit(pick(r, pool))}
	default:
		g := 0
		return genRe(r, 2, "xyae15.= ", &g, false, nil)
	}
}

func asciiOnly(xs []string) []string {
	var out []string
	for _, x := range xs {
		ok := true
		for i := 0; i < len(x); i++ {
			if x[i] >= 0x80 {
				ok = false
			}
		}
		if ok {
			out = append(out, x)
		}
	}
	return out
}

func genMatcher(r *rand.Rand) LMatcher {
	m := LMatcher{Label: pick(r, lgLabels), Op: pick(r, lgStrOp)}
	if r.Intn(8) == 0 {
		m.Label = "nolabel"
	}
	if m.Op == "re" || m.Op == "nre" {
		m.Re = genValueRe(r, lgValues)
	} else {
		m.Value = pick(r, lgValues)
	}
	return m
}

func genPred(r *rand.Rand, depth int) *LPred {
	if depth > 0 && r.Intn(3) == 0 {
		k := []string{"and", "or", "and", "or", "paren"}[r.Intn(5)]
		if k == "paren" {
			return &LPred{Kind: "paren", A: genPred(r, depth-1)}
		}
		return &LPred{Kind: k, A: genPred(r, depth-1), B: genPred(r, depth-1)}
	}
	label := pick(r, lgLabels)
	if r.Intn(8) == 0 {
		label = "nolabel"
	}
	switch r.Intn(7) {
	case 0, 1, 2:
		m := genMatcher(r)
		return &LPred{Kind: "m", M: &m}
	case 3:
		n := pick(r, lgNums)
		return &LPred{Kind: "num", Label: label, Cmp: pick(r, lgCmps), Lit: n.text, Num: n.q}
	case 4:
		d := pick(r, lgDurs)
		return &LPred{Kind: "dur", Label: label, Cmp: pick(r, lgCmps), Lit: d.text, N: d.ns}
	case 5:
		b := pick(r, lgBytes)
		return &LPred{Kind: "bytes", Label: label, Cmp: pick(r, lgCmps), Lit: b.text, N: b.n}
	default:
		return &LPred{Kind: "ip", Label: label, Cmp: pick(r, []string{"eq", "ne"}), Lit: pick(r, lgIPs)}
	}
}

func genTpl(r *rand.Rand, allowFail bool) []TplPart {
	n := 1 + r.Intn(3)
	var t []TplPart
	for i := 0; i < n; i++ {
		switch k := r.Intn(9); {
		case k <= 2:
			t = append(t, TplPart{Kind: "lit", Text: pick(r, []string{"x", "-", " ", "v=", "[", "]"})})
		case k <= 5:
			t = append(t, TplPart{Kind: "field", Text: pick(r, append(lgLabels, "nolabel", "msg"))})
		case k == 6:
			t = append(t, TplPart{Kind: "line"})
		case k == 7:
			t = append(t, TplPart{Kind: "ts"})
		default:
			if allowFail && r.Intn(3) == 0 {
				t = append(t, TplPart{Kind: "fail"})
			} else if allowFail {
				// fails or not depending on the record's label value
				t = append(t, TplPart{Kind: "epoch", Text: pick(r, lgLabels)})
			} else {
				t = append(t, TplPart{Kind: "lit", Text: "."})
			}
		}
	}
	return t
}

func distinctStrings(r *rand.Rand, pool []string, n int) []string {
	p := r.Perm(len(pool))
	if n > len(pool) {
		n = len(pool)
	}
	out := make([]string, n)
	for i := 0; i < n; i++ {
		out[i] = pool[p[i]]
	}
	return out
}

// genStage draws one stage of the given kind.
func genStage(r *rand.Rand, kind string) LStage {
	switch kind {
	case "lf":
		s := LStage{Kind: "lf", Op: pick(r, lgStrOp)}
		if s.Op == "re" || s.Op == "nre" {
			s.Re = genValueRe(r, asciiOnly(append(lgNeedles, "error", "lvl=warn")))
			switch r.Intn(10) {
			case 0: // a pure literal under the case-folding flag, in the case the lines do not use
				s.Re = &Re{Kind: "fold", Neg: r.Intn(2) == 0, A: reLit(pick(r, []string{"ERROR", "Error", "LVL", "Warn", "X", "INFO"}))}
			case 1: // any expression under the flag
				s.Re = &Re{Kind: "fold", A: s.Re}
			}
		} else {
			s.Value = pick(r, lgNeedles)
		}
		return s
	case "lfip":
		return LStage{Kind: "lfip", Neg: r.Intn(3) == 0, Value: pick(r, lgIPs)}
	case "json":
		s := LStage{Kind: "json"}
		switch r.Intn(3) {
		case 1:
			s.Labels = distinctStrings(r, []string{"a", "b", "lvl", "n", "zz", "nested"}, 1+r.Intn(3))
		case 2:
			for _, l := range distinctStrings(r, []string{"a", "p", "qq", "zz"}, 1+r.Intn(2)) {
				s.Paths = append(s.Paths, LPathExpr{Label: l, Path: genPath(r)})
			}
			if len(s.Paths) == 2 && r.Intn(3) == 0 {
				// two labels for one path (every label must get the value, whatever its kind)
				s.Paths[1].Path = s.Paths[0].Path
				if r.Intn(2) == 0 {
					s.Paths[0].Path, s.Paths[1].Path = []PathSel{{Key: "nested"}}, []PathSel{{Key: "nested"}}
				}
			}
			if r.Intn(2) == 0 {
				s.Labels = distinctStrings(r, []string{"b", "lvl", "n"}, 1)
			}
		}
		return s
	case "logfmt":
		s := LStage{Kind: "logfmt"}
		switch r.Intn(3) {
		case 1:
			s.Labels = distinctStrings(r, []string{"a", "b", "lvl", "n", "d", "ip"}, 1+r.Intn(3))
		case 2:
			s.Labels = distinctStrings(r, []string{"a", "lvl"}, r.Intn(2))
			for i, k := range distinctStrings(r, []string{"b", "n", "d", "c", "ip"}, 1+r.Intn(2)) {
				s.Keys = append(s.Keys, [2]string{fmt.Sprintf("k%d", i), k})
			}
		}
		return s
	case "regexp":
		names := distinctStrings(r, []string{"g1", "g2", "a", "zz"}, 1+r.Intn(2))
		if r.Intn(3) == 0 {
			// unnamed capturing groups among the named ones: they take a submatch index and expose nothing
			k := r.Intn(len(names) + 1)
			names = append(append(append([]string{}, names[:k]...), ""), names[k:]...)
		}
		g := 0
		var re *Re
		named := func() bool {
			for _, n := range names[:g] {
				if n != "" {
					return true
				}
			}
			return false
		}
		for g == 0 || !named() {
			g = 0
			re = genRe(r, 3, "xyae15.= ", &g, true, names)
		}
		return LStage{Kind: "regexp", Re: re, Groups: names[:g]}
	case "pattern":
		return LStage{Kind: "pattern", Pattern: genPattern(r)}
	case "unpack", "decolorize":
		return LStage{Kind: kind}
	case "linefmt":
		return LStage{Kind: "linefmt", Tpl: genTpl(r, true)}
	case "lblf":
		return LStage{Kind: "lblf", Pred: genPred(r, 2)}
	case "lblfmt":
		s := LStage{Kind: "lblfmt"}
		dsts := distinctStrings(r, append(lgLabels, "dst", "e2"), 1+r.Intn(3))
		for _, d := range dsts {
			if r.Intn(2) == 0 {
				s.Renames = append(s.Renames, [2]string{d, pick(r, append(lgLabels, "nolabel", "dst"))})
			} else {
				s.Tpls = append(s.Tpls, LTplLabel{Dst: d, T: genTpl(r, true)})
			}
		}
		return s
	case "drop", "keep":
		s := LStage{Kind: kind}
		for _, l := range distinctStrings(r, append(lgLabels, "msg", "__error__"), r.Intn(3)) {
			s.Labels = append(s.Labels, l)
		}
		for i, n := 0, r.Intn(3); i < n; i++ {
			s.Matchers = append(s.Matchers, genMatcher(r))
		}
		if len(s.Labels)+len(s.Matchers) == 0 {
			s.Labels = []string{pick(r, lgLabels)}
		}
		return s
	case "distinct":
		return LStage{Kind: "distinct", Labels: distinctStrings(r, lgLabels, 1+r.Intn(2))}
	}
	panic("genStage " + kind)
}

func genPath(r *rand.Rand) []PathSel {
	var p []PathSel
	for i, n := 0, 1+r.Intn(3); i < n; i++ {
		switch r.Intn(4) {
		case 0:
			p = append(p, PathSel{IsIdx: true, Idx: r.Intn(3)})
		case 1:
			p = append(p, PathSel{Key: pick(r, []string{"x y", "c.d", "a"})})
		default:
			p = append(p, PathSel{Key: pick(r, []string{"a", "b", "nested", "k", "lvl"})})
		}
	}
	return p
}

func genPattern(r *rand.Rand) []PatPart {
	var ps []PatPart
	n := 1 + r.Intn(4)
	names := []string{"a", "b", "_", "zz", "_", "p1"}
	lits := []string{" ", "=", " - ", ":", "x", "<1", "< ", "."}
	used := map[string]bool{}
	for i := 0; i < n; i++ {
		if r.Intn(2) == 0 || (i > 0 && ps[len(ps)-1].Cap && r.Intn(10) != 0) {
			ps = append(ps, PatPart{Text: pick(r, lits)})
		} else {
			nm := pick(r, names)
			if used[nm] && nm != "_" && r.Intn(10) != 0 {
				continue
			}
			used[nm] = true
			ps = append(ps, PatPart{Cap: true, Text: nm})
		}
	}
	// merge adjacent literals (the parser would read them as one)
	var out []PatPart
	for _, p := range ps {
		if !p.Cap && len(out) > 0 && !out[len(out)-1].Cap {
			out[len(out)-1].Text += p.Text
		} else {
			out = append(out, p)
		}
	}
	return out
}

// ---- structured documents ----

func genJSONValue(r *rand.Rand, depth int) string {
	switch k := r.Intn(10); {
	case k <= 3:
		return strconv.Quote(pick(r, lgValues))
	case k == 4:
		return strconv.Itoa(r.Intn(50) - 5)
	case k == 5:
		return pick(r, []string{"2.5", "10.0", "0.25", "1e2", "-1.5"})
	case k == 6:
		return pick(r, []string{"true", "false"})
	case k == 7:
		return "null"
	case depth > 0:
		// nested values in the canonical compact form pdata renders them back to
		return pick(r, []string{`[1,2]`, `{"k":1}`, `["y"]`, `[]`, `{}`, `{"a":"y"}`, `[[1],{"k":"x"}]`, `{"a":{"b":[true]}}`})
	}
	return `"leaf"`
}

func genJSONObject(r *rand.Rand, depth int, keys []string) string {
	n := r.Intn(5)
	sp := func() string { return pick(r, []string{"", "", " ", "\t"}) }
	parts := make([]string, n)
	for i := range parts {
		parts[i] = sp() + strconv.Quote(pick(r, keys)) + sp() + ":" + sp() + genJSONValue(r, depth) + sp()
	}
	return "{" + strings.Join(parts, ",") + "}"
}

func genJSONLine(r *rand.Rand) string {
	doc := genJSONObject(r, 2, []string{"a", "b", "lvl", "n", "nested", "c.d", "x y", "zz", "9z", "_entry"})
	switch r.Intn(12) {
	case 0:
		return doc[:r.Intn(len(doc)+1)] // truncated
	case 1:
		b := []byte(doc)
		if len(b) > 0 {
			b[r.Intn(len(b))] = pick(r, []byte{'"', ',', 'x'})
		}
		return string(b)
	case 2:
		return doc + " trailing"
	case 3:
		return pick(r, []string{`{"a":9223372036854775808}`, `{"a":01}`, `[1,2]`, `5`, ``, `{"a":"x",}`, `{"a":1 "b":2}`, "{\"a\":\"\x01\"}"})
	}
	return doc
}

// genWrittenLogfmt is the canonical writer of Verif/Env/Writers.lean (`Logfmt.write`) over random
// pairs in its domain (keyOK, valOK): the domain of theorem C06_logfmt_read_write.
func genWrittenLogfmt(r *rand.Rand) string {
	var parts []string
	for i, n := 0, r.Intn(4); i < n; i++ {
		var k, v strings.Builder
		for j, m := 0, 1+r.Intn(3); j < m; j++ {
			c := byte(33 + r.Intn(94))
			if c == '=' || c == '"' {
				c = 'k'
			}
			k.WriteByte(c)
		}
		for j, m := 0, r.Intn(5); j < m; j++ {
			v.WriteString(pick(r, []string{`\"`, `\\`, `\n`, `\r`, `\t`, " ", "=", "a", "7", "~", "{"}))
		}
		parts = append(parts, k.String()+`="`+v.String()+`"`)
	}
	return strings.Join(parts, " ")
}

func genLogfmtLine(r *rand.Rand) string {
	if r.Intn(6) == 0 {
		return genWrittenLogfmt(r)
	}
	n := r.Intn(5)
	parts := make([]string, n)
	for i := range parts {
		k := pick(r, []string{"a", "b", "lvl", "n", "d", "c", "ip", "c.d", "9z"})
		switch r.Intn(6) {
		case 0:
			parts[i] = k
		case 1:
			parts[i] = k + "="
		case 2:
			parts[i] = k + "=" + strconv.Quote(pick(r, []string{"q r", "x", `a"b`, "t\tb", ""}))
		default:
			parts[i] = k + "=" + pick(r, []string{"1", "x", "xy", "5KB", "250ms", "10.0.0.1", "2.5", "warn"})
		}
	}
	line := strings.Join(parts, pick(r, []string{" ", "  ", "\t"}))
	switch r.Intn(12) {
	case 0:
		return line + pick(r, []string{` a==b`, ` a=b=c`, ` a=x"y`, ` "a"=1`, ` =1`, ` a="unterminated`, ` a="bad\xescape"`})
	case 1:
		return line + "\n" + "a=second"
	}
	return line
}

func genSGRLine(r *rand.Rand) string {
	var sb strings.Builder
	for i, n := 0, 1+r.Intn(4); i < n; i++ {
		if r.Intn(2) == 0 {
			sb.WriteString(pick(r, []string{"error", "x", " ", "ok 1", "m", "[1m"}))
		} else {
			sb.WriteString("\x1b[" + pick(r, []string{"0", "1", "31", "1;31", "38;5;200", ""}) + "m")
		}
	}
	return sb.String()
}

func genPackedLine(r *rand.Rand) string {
	doc := genJSONObject(r, 1, []string{"a", "b", "_entry", "lvl", "c.d", "x y", "_entry"})
	if r.Intn(10) == 0 {
		return doc[:r.Intn(len(doc)+1)]
	}
	return doc
}

// genRecs draws records whose lines suit the given stages.
func genRecs(r *rand.Rand, stages []LStage, max int) []LRec {
	n := r.Intn(max + 1)
	recs := make([]LRec, n)
	ts := int64(1700000000e9)
	kinds := map[string]bool{}
	for _, s := range stages {
		kinds[s.Kind] = true
	}
	// a third of the cases look like container logs: one or two streams whose records carry the same
	// attributes (which a storage may hand out as one shared map)
	var streams [][][2]string
	if r.Intn(3) == 0 {
		for k := 1 + r.Intn(2); k > 0; k-- {
			var a [][2]string
			for _, l := range distinctStrings(r, lgLabels, 1+r.Intn(3)) {
				a = append(a, [2]string{l, recValue(r)})
			}
			streams = append(streams, a)
		}
	}
	for i := range recs {
		switch r.Intn(4) {
		case 0:
		case 1:
			ts += 1e9
		default:
			ts += int64(r.Intn(3)) * 5e8
		}
		var body string
		switch k := r.Intn(10); {
		case kinds["json"] && k < 6:
			body = genJSONLine(r)
		case kinds["logfmt"] && k < 6:
			body = genLogfmtLine(r)
		case kinds["unpack"] && k < 6:
			body = genPackedLine(r)
		case kinds["decolorize"] && k < 6:
			body = genSGRLine(r)
		case k == 9:
			body = ""
		default:
			body = genLine(r)
		}
		rec := LRec{TS: ts, Body: body}
		if streams != nil {
			rec.Attrs = append([][2]string{}, streams[r.Intn(len(streams))]...)
		} else {
			for _, l := range distinctStrings(r, lgLabels, r.Intn(4)) {
				rec.Attrs = append(rec.Attrs, [2]string{l, recValue(r)})
			}
		}
		recs[i] = rec
	}
	return recs
}

var allStageKinds = []string{"lf", "lf", "lfip", "json", "logfmt", "regexp", "pattern", "unpack", "linefmt", "decolorize", "lblf", "lblf", "lblfmt", "drop", "keep", "distinct"}

func genLogCase(r *rand.Rand, kinds []string, maxStages, maxRecs int) LogCase {
	t := LogCase{Limit: -1}
	for i, n := 0, r.Intn(3); i < n; i++ {
		t.Sel = append(t.Sel, genMatcher(r))
	}
	for i, n := 0, r.Intn(maxStages+1); i < n; i++ {
		t.Stages = append(t.Stages, genStage(r, pick(r, kinds)))
	}
	fixAmbiguity(t.Stages)
	t.Recs = genRecs(r, t.Stages, maxRecs)
	for _, op := range lgStrOp {
		if r.Intn(2) == 0 {
			t.CapsLabel = append(t.CapsLabel, op)
		}
		if r.Intn(2) == 0 {
			t.CapsLine = append(t.CapsLine, op)
		}
	}
	if r.Intn(3) == 0 {
		n := len(t.Recs)
		t.Limit = pick(r, []int{-1, 0, 1, n - 1, n, n + 1, 2})
	}
	t.Share = r.Intn(2) == 0
	return t
}

func shrinkLogCase(t LogCase) []LogCase {
	var out []LogCase
	for i := range t.Recs {
		c := t
		c.Recs = append(append([]LRec{}, t.Recs[:i]...), t.Recs[i+1:]...)
		out = append(out, c)
	}
	for i := range t.Stages {
		c := t
		c.Stages = append(append([]LStage{}, t.Stages[:i]...), t.Stages[i+1:]...)
		out = append(out, c)
	}
	for i := range t.Sel {
		c := t
		c.Sel = append(append([]LMatcher{}, t.Sel[:i]...), t.Sel[i+1:]...)
		out = append(out, c)
	}
	if len(t.CapsLabel) > 0 {
		c := t
		c.CapsLabel = nil
		out = append(out, c)
	}
	if len(t.CapsLine) > 0 {
		c := t
		c.CapsLine = nil
		out = append(out, c)
	}
	if t.Limit != -1 {
		c := t
		c.Limit = -1
		out = append(out, c)
	}
	for i, rec := range t.Recs {
		if len(rec.Attrs) > 0 {
			c := t
			c.Recs = append([]LRec{}, t.Recs...)
			c.Recs[i].Attrs = rec.Attrs[:len(rec.Attrs)-1]
			out = append(out, c)
		}
		if ws := strings.Split(rec.Body, " "); len(ws) > 1 {
			c := t
			c.Recs = append([]LRec{}, t.Recs...)
			c.Recs[i].Body = strings.Join(ws[:len(ws)-1], " ")
			out = append(out, c)
			c2 := t
			c2.Recs = append([]LRec{}, t.Recs...)
			c2.Recs[i].Body = strings.Join(ws[1:], " ")
			out = append(out, c2)
		}
	}
	for i, s := range t.Stages {
		if s.Kind == "lblf" && (s.Pred.Kind == "and" || s.Pred.Kind == "or" || s.Pred.Kind == "paren") {
			for _, sub := range []*LPred{s.Pred.A, s.Pred.B} {
				if sub == nil {
					continue
				}
				c := t
				c.Stages = append([]LStage{}, t.Stages...)
				c.Stages[i].Pred = sub
				out = append(out, c)
			}
		}
	}
	return out
}

// logTags: distribution counters for a log case.
func logTags(prefix string, t LogCase, impl Sexp) []string {
	tags := []string{fmt.Sprintf("%s:stages=%d", prefix, len(t.Stages))}
	for _, s := range t.Stages {
		tags = append(tags, prefix+":stage="+s.Kind)
	}
	if impl.Head() == "err" {
		tags = append(tags, prefix+":impl-err="+impl.List[1].Atom)
	} else {
		n := 0
		hasErr := false
		for _, st := range impl.Args() {
			n += len(st.List) - 2
			if strings.Contains(st.List[1].String(), B("__error__").Atom) {
				hasErr = true
			}
		}
		switch {
		case n == 0:
			tags = append(tags, prefix+":result=empty")
		case n == len(t.Recs):
			tags = append(tags, prefix+":result=all")
		default:
			tags = append(tags, prefix+":result=some")
		}
		if hasErr {
			tags = append(tags, prefix+":error-label")
		}
	}
	return tags
}

func logResultCount(impl Sexp) (entries int, hasErrLabel bool) {
	if impl.Head() != "ok" {
		return 0, false
	}
	for _, st := range impl.Args() {
		entries += len(st.List) - 2
		if strings.Contains(st.List[1].String(), B("__error__").Atom) {
			hasErrLabel = true
		}
	}
	return
}

// fixAmbiguity: `| drop a != "x"` reads the negated line filter as a value matcher of the last bare
// label (inherent to the LogQL grammar); such layouts are not generated.
func fixAmbiguity(stages []LStage) {
	for i := 0; i+1 < len(stages); i++ {
		if (stages[i].Kind == "drop" || stages[i].Kind == "keep") && len(stages[i].Matchers) == 0 {
			n := &stages[i+1]
			if n.Kind == "lf" && n.Op == "ne" {
				n.Op = "eq"
			} else if n.Kind == "lf" && n.Op == "nre" {
				n.Op = "re"
			} else if n.Kind == "lfip" {
				n.Neg = false
			}
		}
	}
}
