package main

import (
	"flag"
	"fmt"
	"math/rand"

	"github.com/docker/docker/api/types"

	"github.com/tdakkota/docker-logql/internal/dockerlog"
)

// raceCmd exercises the concurrent section of dockerlog.Querier.SelectLogs (one goroutine per selected
// container) through Engine.Eval: 2-8 containers, all opens succeeding or some failing, log and metric
// queries.  Built with `go build -race` (bin/check does that for C18) the Go race detector watches every
// access of these executions; it reports on stderr and makes the process exit with status 66.
func raceCmd(args []string) {
	fs := flag.NewFlagSet("race", flag.ExitOnError)
	trials := fs.Int("trials", 300, "number of executions")
	seed := fs.Int64("seed", 1, "seed")
	_ = fs.Parse(args)
	r := rand.New(rand.NewSource(*seed))
	ok, failed := 0, 0
	for trial := 0; trial < *trials; trial++ {
		n := 2 + r.Intn(7)
		fd := &fakeDocker{Logs: map[string][]byte{}, OpenErr: map[string]error{}}
		for i := 0; i < n; i++ {
			id := fmt.Sprintf("id%d", i)
			fd.Inventory = append(fd.Inventory, types.Container{ID: id, Names: []string{fmt.Sprintf("/c%d", i)}, Image: "img", State: "running", Status: "Up",
				Labels: map[string]string{"tier": pick(r, []string{"fe", "be"})}})
			var b []byte
			for j, m := 0, r.Intn(4); j < m; j++ {
				b = append(b, c03Frame(c03Rec{TS: tsText((mT0+int64(j))*1e9 + int64(i)), Typ: 1, Body: []byte(fmt.Sprintf("line %d of %d\n", j, i))})...)
			}
			fd.Logs[id] = b
		}
		switch r.Intn(3) {
		case 0: // one open fails
			fd.OpenErr[fmt.Sprintf("id%d", r.Intn(n))] = errOpen
		case 1: // several fail
			for i := 0; i < n; i++ {
				if r.Intn(2) == 0 {
					fd.OpenErr[fmt.Sprintf("id%d", i)] = errOpen
				}
			}
		}
		q, err := dockerlog.NewQuerier(fd)
		if err != nil {
			fatal("race: %v", err)
		}
		query := pick(r, []string{`{container=~".+"}`, `{tier="fe"}`, `{container=~"c.*"} |= "line"`, `sum(count_over_time({container=~".+"}[1m]))`})
		if _, err := evalQuery(q, query, (mT0-5)*1e9, (mT0+60)*1e9, timeDur(10e9), -1); err != nil {
			failed++
		} else {
			ok++
		}
	}
	fmt.Printf("race-run finished: %d executions (%d answered, %d with an injected open failure reported)\n", *trials, ok, failed)
}
