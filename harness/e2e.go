package main

import (
	"bytes"
	"encoding/json"
	"fmt"
	"net"
	"net/http"
	"os"
	"os/exec"
	"path/filepath"
	"regexp"
	"sort"
	"strings"
	"sync"
	"time"
)

// fakeDaemon speaks the part of the Docker Engine API the plugin binary uses (ping, container list,
// container logs) on a loopback TCP port, so that the real binary — cobra command, flag parsing, the
// Docker client, the querier, the engine and the renderer together — can be run end to end.
type fakeDaemon struct {
	ln  net.Listener
	srv *http.Server

	mu        sync.Mutex
	inventory []map[string]any  // as served by /containers/json
	logs      map[string][]byte // id -> multiplexed stream
	requests  []string          // "id since until" per logs request
	sock, dir string
}

var logsPath = regexp.MustCompile(`^(?:/v[0-9.]+)?/containers/([^/]+)/logs$`)
var listPath = regexp.MustCompile(`^(?:/v[0-9.]+)?/containers/json$`)

func startFakeDaemon() (*fakeDaemon, error) {
	// a unix socket (like the real daemon's): no network stack needed
	dir, err := os.MkdirTemp("", "e2e-sock-")
	if err != nil {
		return nil, err
	}
	sock := filepath.Join(dir, "docker.sock")
	ln, err := net.Listen("unix", sock)
	if err != nil {
		return nil, err
	}
	d := &fakeDaemon{ln: ln, logs: map[string][]byte{}, sock: sock, dir: dir}
	mux := http.NewServeMux()
	mux.HandleFunc("/", func(w http.ResponseWriter, r *http.Request) {
		w.Header().Set("Api-Version", "1.43")
		w.Header().Set("Ostype", "linux")
		switch {
		case strings.HasSuffix(r.URL.Path, "/_ping"):
			w.Header().Set("Content-Type", "text/plain")
			fmt.Fprint(w, "OK")
		case listPath.MatchString(r.URL.Path):
			d.mu.Lock()
			inv := d.inventory
			d.mu.Unlock()
			w.Header().Set("Content-Type", "application/json")
			_ = json.NewEncoder(w).Encode(inv)
		case logsPath.MatchString(r.URL.Path):
			id := logsPath.FindStringSubmatch(r.URL.Path)[1]
			q := r.URL.Query()
			d.mu.Lock()
			d.requests = append(d.requests, fmt.Sprintf("%s since=%s until=%s timestamps=%s stdout=%s stderr=%s tail=%s", id, q.Get("since"), q.Get("until"), q.Get("timestamps"), q.Get("stdout"), q.Get("stderr"), q.Get("tail")))
			body, ok := d.logs[id]
			d.mu.Unlock()
			if !ok {
				w.WriteHeader(http.StatusNotFound)
				_ = json.NewEncoder(w).Encode(map[string]string{"message": "No such container: " + id})
				return
			}
			w.Header().Set("Content-Type", "application/vnd.docker.multiplexed-stream")
			_, _ = w.Write(body)
		default:
			w.WriteHeader(http.StatusNotFound)
			_ = json.NewEncoder(w).Encode(map[string]string{"message": "fake daemon: no route " + r.URL.Path})
		}
	})
	d.srv = &http.Server{Handler: mux}
	go func() { _ = d.srv.Serve(ln) }()
	return d, nil
}

func (d *fakeDaemon) Addr() string { return "unix://" + d.sock }

func (d *fakeDaemon) Close() {
	_ = d.srv.Close()
	_ = os.RemoveAll(d.dir)
}

// Load installs an inventory with logs; returns nothing. Containers: id, names, labels, log bytes.
func (d *fakeDaemon) Load(ctrs []e2eCtr) {
	d.mu.Lock()
	defer d.mu.Unlock()
	d.inventory = nil
	d.logs = map[string][]byte{}
	d.requests = nil
	for _, c := range ctrs {
		labels := map[string]string{}
		for _, kv := range c.Labels {
			labels[kv[0]] = kv[1]
		}
		d.inventory = append(d.inventory, map[string]any{
			"Id": c.ID, "Names": []string{"/" + c.Name}, "Image": "img", "ImageID": "sha", "Command": "run", "Created": 0,
			"State": "running", "Status": "Up", "Labels": labels,
		})
		d.logs[c.ID] = c.Log
	}
}

func (d *fakeDaemon) Requests() []string {
	d.mu.Lock()
	defer d.mu.Unlock()
	out := append([]string{}, d.requests...)
	sort.Strings(out)
	return out
}

type e2eCtr struct {
	ID, Name string
	Labels   [][2]string
	Log      []byte
}

var pluginOnce struct {
	sync.Once
	bin string
	err error
}

// pluginBinary builds the plugin (tag verif, which only adds the driver mode) from /repo's working tree.
func pluginBinary(verifDir string) (string, error) {
	pluginOnce.Do(func() {
		bin := filepath.Join(verifDir, ".build", "docker-logql-e2e")
		build := exec.Command("go", "build", "-tags", "verif", "-o", bin, "./cmd/docker-logql")
		build.Dir = "/repo"
		build.Env = append(os.Environ(), "GOFLAGS=-mod=mod", "GOPROXY=off", "GOSUMDB=off", "GOTOOLCHAIN=local", "CGO_ENABLED=0")
		if out, err := build.CombinedOutput(); err != nil {
			pluginOnce.err = fmt.Errorf("build plugin: %v\n%s", err, out)
			return
		}
		pluginOnce.bin = bin
	})
	return pluginOnce.bin, pluginOnce.err
}

// runPlugin executes `docker-logql logql query <flags> <query>` against the fake daemon.
func runPlugin(bin string, d *fakeDaemon, args []string) (stdout, stderr string, exit int, err error) {
	cmd := exec.Command(bin, append([]string{"logql", "query"}, args...)...)
	home, _ := os.MkdirTemp("", "e2e-home-")
	defer os.RemoveAll(home)
	cmd.Env = []string{"DOCKER_HOST=" + d.Addr(), "HOME=" + home, "DOCKER_CONFIG=" + home, "TZ=UTC", "PATH=" + os.Getenv("PATH"), "NO_COLOR=1"}
	var so, se bytes.Buffer
	cmd.Stdout, cmd.Stderr = &so, &se
	done := make(chan error, 1)
	if err := cmd.Start(); err != nil {
		return "", "", -1, err
	}
	go func() { done <- cmd.Wait() }()
	select {
	case werr := <-done:
		exit = 0
		if werr != nil {
			if ee, ok := werr.(*exec.ExitError); ok {
				exit = ee.ExitCode()
			} else {
				return so.String(), se.String(), -1, werr
			}
		}
	case <-time.After(20 * time.Second):
		_ = cmd.Process.Kill()
		return so.String(), se.String(), -1, fmt.Errorf("plugin did not finish within 20s")
	}
	return so.String(), se.String(), exit, nil
}
