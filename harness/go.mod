module github.com/tdakkota/docker-logql/verifharness

go 1.22.0

require github.com/tdakkota/docker-logql v0.0.0

require (
	github.com/dustin/go-humanize v1.0.1 // indirect
	github.com/go-faster/errors v0.7.1 // indirect
	github.com/gogo/protobuf v1.3.2 // indirect
	github.com/google/uuid v1.6.0 // indirect
	github.com/grafana/regexp v0.0.0-20240518133315-a468a5bfb3bc // indirect
	github.com/prometheus/client_model v0.6.1 // indirect
	github.com/prometheus/common v0.55.0 // indirect
	github.com/prometheus/prometheus v0.54.0 // indirect
	go.opentelemetry.io/collector/pdata v1.13.0 // indirect
	go.uber.org/multierr v1.11.0 // indirect
	golang.org/x/net v0.28.0 // indirect
	golang.org/x/sys v0.23.0 // indirect
	golang.org/x/text v0.17.0 // indirect
	google.golang.org/genproto/googleapis/rpc v0.0.0-20240708141625-4ad9e859172b // indirect
	google.golang.org/grpc v1.65.0 // indirect
	google.golang.org/protobuf v1.34.2 // indirect
)

replace github.com/tdakkota/docker-logql => /repo
