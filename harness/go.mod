module github.com/tdakkota/docker-logql/verifharness

go 1.22.0

require (
	github.com/docker/docker v27.1.2+incompatible
	github.com/tdakkota/docker-logql v0.0.0
	go.opentelemetry.io/collector/pdata v1.13.0
)

require (
	github.com/Masterminds/goutils v1.1.1 // indirect
	github.com/Masterminds/semver/v3 v3.2.0 // indirect
	github.com/Masterminds/sprig/v3 v3.2.3 // indirect
	github.com/cespare/xxhash/v2 v2.3.0 // indirect
	github.com/distribution/reference v0.5.0 // indirect
	github.com/dlclark/regexp2 v1.11.4 // indirect
	github.com/docker/go-connections v0.5.0 // indirect
	github.com/docker/go-units v0.5.0 // indirect
	github.com/dustin/go-humanize v1.0.1 // indirect
	github.com/fatih/color v1.17.0 // indirect
	github.com/felixge/httpsnoop v1.0.4 // indirect
	github.com/ghodss/yaml v1.0.0 // indirect
	github.com/go-faster/errors v0.7.1 // indirect
	github.com/go-faster/jx v1.1.0 // indirect
	github.com/go-faster/yaml v0.4.6 // indirect
	github.com/go-logfmt/logfmt v0.6.0 // indirect
	github.com/go-logr/logr v1.4.2 // indirect
	github.com/go-logr/stdr v1.2.2 // indirect
	github.com/gogo/protobuf v1.3.2 // indirect
	github.com/google/uuid v1.6.0 // indirect
	github.com/grafana/regexp v0.0.0-20240518133315-a468a5bfb3bc // indirect
	github.com/huandu/xstrings v1.3.3 // indirect
	github.com/imdario/mergo v0.3.16 // indirect
	github.com/json-iterator/go v1.1.12 // indirect
	github.com/mattn/go-colorable v0.1.13 // indirect
	github.com/mattn/go-isatty v0.0.20 // indirect
	github.com/mitchellh/copystructure v1.2.0 // indirect
	github.com/mitchellh/reflectwalk v1.0.2 // indirect
	github.com/moby/docker-image-spec v1.3.1 // indirect
	github.com/modern-go/concurrent v0.0.0-20180306012644-bacd9c7ef1dd // indirect
	github.com/modern-go/reflect2 v1.0.2 // indirect
	github.com/ogen-go/ogen v1.3.0 // indirect
	github.com/opencontainers/go-digest v1.0.0 // indirect
	github.com/opencontainers/image-spec v1.1.0-rc5 // indirect
	github.com/pkg/errors v0.9.1 // indirect
	github.com/prometheus/client_model v0.6.1 // indirect
	github.com/prometheus/common v0.55.0 // indirect
	github.com/prometheus/prometheus v0.54.0 // indirect
	github.com/segmentio/asm v1.2.0 // indirect
	github.com/shopspring/decimal v1.2.0 // indirect
	github.com/spf13/cast v1.3.1 // indirect
	go.opentelemetry.io/contrib/instrumentation/net/http/otelhttp v0.53.0 // indirect
	go.opentelemetry.io/otel v1.28.0 // indirect
	go.opentelemetry.io/otel/metric v1.28.0 // indirect
	go.opentelemetry.io/otel/trace v1.28.0 // indirect
	go.uber.org/multierr v1.11.0 // indirect
	go.uber.org/zap v1.27.0 // indirect
	go4.org/netipx v0.0.0-20231129151722-fdeea329fbba // indirect
	golang.org/x/crypto v0.26.0 // indirect
	golang.org/x/exp v0.0.0-20240205201215-2c58cdc269a3 // indirect
	golang.org/x/net v0.28.0 // indirect
	golang.org/x/sync v0.8.0 // indirect
	golang.org/x/sys v0.23.0 // indirect
	golang.org/x/text v0.17.0 // indirect
	google.golang.org/genproto/googleapis/rpc v0.0.0-20240708141625-4ad9e859172b // indirect
	google.golang.org/grpc v1.65.0 // indirect
	google.golang.org/protobuf v1.34.2 // indirect
	gopkg.in/yaml.v2 v2.4.0 // indirect
)

replace github.com/tdakkota/docker-logql => /repo
