package main

import (
	"fmt"
	"math/rand"
	"sort"
	"strings"
)

func init() {
	props["C01"] = func(c *Ctx) {
		c.Res.Rule = "case = storage capabilities (random subset of = != =~ !~ for labels and for lines) x log query AST (0-2 selector matchers; 0-5 stages of all 14 kinds: line filters incl. ip(), label predicates with and/or/parentheses over string/number/duration/bytes/ip comparisons, json/logfmt/regexp/pattern/unpack, line_format/label_format/drop/keep/decolorize, distinct) (a tenth of the regex filters under (?i), half of those a pure literal in a case the lines do not use; a tenth of the cases: a field extracted under the name of a stream label from records sharing one attribute map, then a filter on it) x 0-12 records (label alphabet c,d,a,zz,lvl,n x 16 values; lines from a vocabulary of words, k=v pairs, IPs, numbers, durations, sizes, non-UTF-8) x limit; evaluated through logql.Parse + Engine.Eval over a mock backend that applies exactly what it is handed; non-trivial = result neither empty nor everything, or an __error__ label is produced; distinct by request line"
		spec := &Spec[LogCase]{
			What: "LogQL.entries/group == Engine.Eval over a capability-configurable backend",
			Gen: func(r *rand.Rand) LogCase {
				t := genLogCase(r, allStageKinds, 5, 12)
				if r.Intn(12) == 0 {
					// a regex line filter that is an anchored literal (^lit$, ^lit, lit$) against lines that contain the
					// literal without being equal to it, under every split of the line operators between storage and
					// engine: whoever evaluates the filter must evaluate the same thing
					lit := pick(r, []string{"error", "x", "lvl=warn", "a=1"})
					re := reLit(lit)
					switch r.Intn(3) {
					case 0:
						re = &Re{Kind: "seq", A: &Re{Kind: "bol"}, B: &Re{Kind: "seq", A: re, B: &Re{Kind: "eol"}}}
					case 1:
						re = &Re{Kind: "seq", A: &Re{Kind: "bol"}, B: re}
					default:
						re = &Re{Kind: "seq", A: re, B: &Re{Kind: "eol"}}
					}
					t.Stages = []LStage{{Kind: "lf", Op: pick(r, []string{"re", "nre"}), Re: re}}
					if r.Intn(2) == 0 {
						t.Stages = append(t.Stages, LStage{Kind: "lf", Op: pick(r, []string{"eq", "ne"}), Value: pick(r, []string{"x", "error"})})
					}
					t.CapsLine = distinctStrings(r, lgStrOp, r.Intn(5))
					if r.Intn(2) == 0 {
						// the storage knows the substring operators only
						t.CapsLine = []string{"eq", "ne"}
					}
					for i := range t.Recs {
						t.Recs[i].Body = pick(r, []string{lit, lit + " x", "x " + lit, "x " + lit + " y", "other", ""})
					}
					return t
				}
				if r.Intn(10) == 0 {
					// an extracted field named like a stream label, on records that share one attribute map, followed
					// by a filter on that label: a stage that writes through into the shared map changes WHICH later
					// records match
					l, v := pick(r, []string{"a", "lvl", "c"}), pick(r, []string{"x", "warn", "k"})
					attrs := [][2]string{{l, v}, {"zz", "1"}}
					t.Sel, t.CapsLabel, t.CapsLine, t.Share = nil, nil, nil, true
					json := r.Intn(2) == 0
					t.Stages = []LStage{{Kind: map[bool]string{true: "json", false: "logfmt"}[json]},
						{Kind: "lblf", Pred: &LPred{Kind: "m", M: &LMatcher{Label: l, Op: pick(r, []string{"eq", "ne"}), Value: v}}}}
					t.Recs = nil
					for i, n := 0, 2+r.Intn(5); i < n; i++ {
						body := pick(r, []string{"plain", "n=1", "other=2"})
						if json {
							body = pick(r, []string{`{"n":1}`, `{"other":"2"}`, `{}`})
						}
						if r.Intn(3) == 0 {
							body = l + "=" + pick(r, []string{"y", v, "api"})
							if json {
								body = fmt.Sprintf(`{%q:%q}`, l, pick(r, []string{"y", v, "api"}))
							}
						}
						t.Recs = append(t.Recs, LRec{TS: int64(i+1) * 1e9, Body: body, Attrs: attrs})
					}
				}
				return t
			},
			Req:    func(t LogCase) Sexp { return t.Req() },
			Impl:   func(t LogCase) Sexp { return logImpl(t, true) },
			Shrink: shrinkLogCase,
			Nontrivial: func(t LogCase, impl Sexp) bool {
				n, e := logResultCount(impl)
				return (n > 0 && n < len(t.Recs)) || e
			},
			Tags: func(t LogCase, impl Sexp) []string { return logTags("c01", t, impl) },
			// C01 speaks about WHICH records come back (with their timestamps and, unless a formatting stage
			// rewrote it, their lines) and about independence of what the storage evaluates; a disagreement
			// confined to label values is some stage's business (C06/C07), not a record gained or lost
			PropertyFails: func(t LogCase, impl, model Sexp) bool {
				if h := impl.Head(); h != "ok" || model.Head() != "ok" {
					return true
				}
				withLine := true
				for _, st := range t.Stages {
					if st.Kind == "linefmt" || st.Kind == "unpack" || st.Kind == "decolorize" {
						withLine = false
					}
				}
				if c01Entries(impl, withLine) != c01Entries(model, withLine) {
					return true
				}
				plain := t
				plain.CapsLabel, plain.CapsLine = nil, nil
				return logImpl(plain, true).String() != impl.String()
			},
		}
		RunSpec(c, spec, c.Scale(5000, 200000))
		if c.ReplayIn != "" {
			return
		}
		// offload-barrier probes: for every stage kind, `{} | <stage> <line filter>` against a backend that
		// offloads every line operator, over records on which the stage rewrites the line or carries state;
		// this is where a wrong classification in extractQueryConditions (cf. Gen/Offload.lean) shows
		var probes []LogCase
		recs := []LRec{
			{TS: 1, Body: `{"_entry":"alpha x","a":"1"}`, Attrs: [][2]string{{"a", "k"}}},
			{TS: 2, Body: `{"_entry":"beta","a":"2","pad":"x"}`, Attrs: [][2]string{{"a", "k"}}},
			{TS: 3, Body: "\x1b[31mx\x1b[0m gamma", Attrs: [][2]string{{"a", "k"}}},
			{TS: 4, Body: "a=1 x", Attrs: [][2]string{{"a", "k"}}},
			{TS: 5, Body: "delta", Attrs: [][2]string{{"a", "k2"}}},
			{TS: 6, Body: "x [", Attrs: [][2]string{{"a", "k2"}}},
		}
		for i := 0; i < c.Scale(40, 400); i++ {
			for _, kind := range []string{"lf", "lfip", "json", "logfmt", "regexp", "pattern", "unpack", "linefmt", "decolorize", "lblf", "lblfmt", "drop", "keep", "distinct"} {
				st := genStage(c.Rng, kind)
				if kind == "distinct" {
					st.Labels = []string{"a"}
				}
				lf := LStage{Kind: "lf", Op: pick(c.Rng, lgStrOp), Value: pick(c.Rng, []string{"x", "alpha", "[", "a=", "31m", "beta"})}
				if lf.Op == "re" || lf.Op == "nre" {
					lf.Re, lf.Value = reLit(lf.Value), ""
				}
				t := LogCase{CapsLine: lgStrOp, CapsLabel: lgStrOp, Stages: []LStage{st, lf}, Recs: recs, Limit: -1}
				fixAmbiguity(t.Stages)
				probes = append(probes, t)
			}
		}
		c.CountN("c01:offload-barrier-probes", len(probes))
		RunCases(c, spec, probes)
	}
}

// c01Entries: the multiset of entries of a result as a canonical string (timestamps, and lines if asked).
func c01Entries(res Sexp, withLine bool) string {
	var es []string
	for _, st := range res.Args() {
		for _, e := range st.List[2:] {
			if withLine {
				es = append(es, e.String())
			} else {
				es = append(es, e.List[1].String())
			}
		}
	}
	sort.Strings(es)
	return strings.Join(es, "\n")
}
