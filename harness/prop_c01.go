package main

import "math/rand"

func init() {
	props["C01"] = func(c *Ctx) {
		c.Res.Rule = "case = storage capabilities (random subset of = != =~ !~ for labels and for lines) x log query AST (0-2 selector matchers; 0-5 stages of all 14 kinds: line filters incl. ip(), label predicates with and/or/parentheses over string/number/duration/bytes/ip comparisons, json/logfmt/regexp/pattern/unpack, line_format/label_format/drop/keep/decolorize, distinct) x 0-12 records (label alphabet c,d,a,zz,lvl,n x 16 values; lines from a vocabulary of words, k=v pairs, IPs, numbers, durations, sizes, non-UTF-8) x limit; evaluated through logql.Parse + Engine.Eval over a mock backend that applies exactly what it is handed; non-trivial = result neither empty nor everything, or an __error__ label is produced; distinct by request line"
		spec := &Spec[LogCase]{
			What:   "LogQL.entries/group == Engine.Eval over a capability-configurable backend",
			Gen:    func(r *rand.Rand) LogCase { return genLogCase(r, allStageKinds, 5, 12) },
			Req:    func(t LogCase) Sexp { return t.Req() },
			Impl:   func(t LogCase) Sexp { return logImpl(t, true) },
			Shrink: shrinkLogCase,
			Nontrivial: func(t LogCase, impl Sexp) bool {
				n, e := logResultCount(impl)
				return (n > 0 && n < len(t.Recs)) || e
			},
			Tags: func(t LogCase, impl Sexp) []string { return logTags("c01", t, impl) },
		}
		RunSpec(c, spec, c.Scale(5000, 200000))
	}
}
