package main

import (
	"encoding/hex"
	"strconv"
	"strings"
)

// Sexp is the line-protocol value: an atom or a list.
type Sexp struct {
	Atom string
	List []Sexp
	IsL  bool
}

func A(s string) Sexp   { return Sexp{Atom: s} }
func N(n int64) Sexp    { return Sexp{Atom: strconv.FormatInt(n, 10)} }
func B(b string) Sexp   { return Sexp{Atom: "x" + hex.EncodeToString([]byte(b))} }
func L(xs ...Sexp) Sexp { return Sexp{List: xs, IsL: true} }
func LS(xs []Sexp) Sexp { return Sexp{List: xs, IsL: true} }
func (s Sexp) Head() string {
	if s.IsL && len(s.List) > 0 {
		return s.List[0].Atom
	}
	return ""
}
func (s Sexp) Args() []Sexp {
	if s.IsL && len(s.List) > 0 {
		return s.List[1:]
	}
	return nil
}
func (s Sexp) Bytes() string {
	if strings.HasPrefix(s.Atom, "x") {
		b, _ := hex.DecodeString(s.Atom[1:])
		return string(b)
	}
	return ""
}
func (s Sexp) Int() int64 { n, _ := strconv.ParseInt(s.Atom, 10, 64); return n }

func (s Sexp) String() string {
	var sb strings.Builder
	s.write(&sb)
	return sb.String()
}

func (s Sexp) write(sb *strings.Builder) {
	if !s.IsL {
		sb.WriteString(s.Atom)
		return
	}
	sb.WriteByte('(')
	for i, x := range s.List {
		if i > 0 {
			sb.WriteByte(' ')
		}
		x.write(sb)
	}
	sb.WriteByte(')')
}

// ParseSexp parses one expression.
func ParseSexp(s string) Sexp {
	p := &sexpParser{s: s}
	xs := p.seq()
	if len(xs) == 1 {
		return xs[0]
	}
	return LS(xs)
}

type sexpParser struct {
	s string
	i int
}

func (p *sexpParser) seq() []Sexp {
	var out []Sexp
	for p.i < len(p.s) {
		c := p.s[p.i]
		switch {
		case c == ' ' || c == '\n' || c == '\t' || c == '\r':
			p.i++
		case c == ')':
			p.i++
			return out
		case c == '(':
			p.i++
			out = append(out, LS(p.seq()))
		default:
			j := p.i
			for j < len(p.s) && !strings.ContainsRune("() \n\t\r", rune(p.s[j])) {
				j++
			}
			out = append(out, A(p.s[p.i:j]))
			p.i = j
		}
	}
	return out
}
