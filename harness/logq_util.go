package main

import "github.com/tdakkota/docker-logql/internal/lokiapi"

type lokiEntry struct {
	T uint64
	V string
}

func toEntries(vs []lokiapi.LogEntry) []lokiEntry {
	out := make([]lokiEntry, len(vs))
	for i, v := range vs {
		out[i] = lokiEntry{v.T, v.V}
	}
	return out
}
