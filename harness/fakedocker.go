package main

import (
	"context"
	"errors"
	"io"
	"sort"
	"sync"
	"time"

	"github.com/docker/docker/api/types"
	apicontainer "github.com/docker/docker/api/types/container"
	"github.com/docker/docker/client"
)

// fakeDocker implements the two API calls the querier uses.
type fakeDocker struct {
	client.APIClient // nil: any other call panics

	Inventory []types.Container
	Logs      map[string][]byte // container id -> multiplexed stream
	ListErr   error
	ListErrAt map[int]bool // fail the n-th ContainerList call (0-based)
	listCalls int
	OpenErr   map[string]error // container id -> error from ContainerLogs
	ReadFail  map[string]int   // container id -> fail reads after this many bytes
	Sizes     []int            // fragmentation of every stream
	// Order, if set, is the order in which concurrent ContainerLogs calls are allowed to complete
	// (container ids); calls for ids not listed complete immediately.
	Order []string

	mu      sync.Mutex
	Opened  []string
	Options map[string]apicontainer.LogsOptions
	Closed  map[string]int
	arrived map[string]chan struct{}
	turn    int
}

var errList = errors.New("injected list error")
var errOpen = errors.New("injected open error")

func (f *fakeDocker) ContainerList(ctx context.Context, o apicontainer.ListOptions) ([]types.Container, error) {
	f.mu.Lock()
	n := f.listCalls
	f.listCalls++
	f.mu.Unlock()
	if f.ListErr != nil || f.ListErrAt[n] {
		return nil, errList
	}
	return f.Inventory, nil
}

func (f *fakeDocker) ContainerLogs(ctx context.Context, id string, o apicontainer.LogsOptions) (io.ReadCloser, error) {
	f.waitTurn(id)
	defer f.doneTurn(id)
	f.mu.Lock()
	defer f.mu.Unlock()
	if f.Options == nil {
		f.Options = map[string]apicontainer.LogsOptions{}
		f.Closed = map[string]int{}
	}
	if err := f.OpenErr[id]; err != nil {
		return nil, err
	}
	f.Opened = append(f.Opened, id)
	f.Options[id] = o
	failAt := -1
	if n, ok := f.ReadFail[id]; ok {
		failAt = n
	}
	closed := new(int)
	rd := &chunkReader{data: append([]byte{}, f.Logs[id]...), sizes: append([]int{}, f.Sizes...), failAt: failAt, closed: closed}
	return &countingCloser{chunkReader: rd, f: f, id: id}, nil
}

type countingCloser struct {
	*chunkReader
	f  *fakeDocker
	id string
}

func (c *countingCloser) Close() error {
	c.f.mu.Lock()
	c.f.Closed[c.id]++
	c.f.mu.Unlock()
	return nil
}

// waitTurn blocks a ContainerLogs call until all ids before it in Order have completed.
func (f *fakeDocker) waitTurn(id string) {
	if len(f.Order) == 0 {
		return
	}
	pos := -1
	for i, x := range f.Order {
		if x == id {
			pos = i
		}
	}
	if pos < 0 {
		return
	}
	f.mu.Lock()
	if f.arrived == nil {
		f.arrived = map[string]chan struct{}{}
		for _, x := range f.Order {
			f.arrived[x] = make(chan struct{})
		}
	}
	var prev chan struct{}
	if pos > 0 {
		prev = f.arrived[f.Order[pos-1]]
	}
	f.mu.Unlock()
	if prev != nil {
		// best effort: if the predecessor never issues its request (an implementation may skip it),
		// go ahead after a while instead of blocking the query for ever
		select {
		case <-prev:
		case <-time.After(500 * time.Millisecond):
		}
	}
}

func (f *fakeDocker) doneTurn(id string) {
	if len(f.Order) == 0 {
		return
	}
	f.mu.Lock()
	ch, ok := f.arrived[id]
	if ok {
		close(ch)
		f.turn++
		if f.turn == len(f.Order) {
			// every request of this round completed: the next SelectLogs starts a new round
			f.arrived, f.turn = nil, 0
		}
	}
	f.mu.Unlock()
}

// OpenedSorted returns the opened ids in sorted order.
func (f *fakeDocker) OpenedSorted() []string {
	f.mu.Lock()
	defer f.mu.Unlock()
	out := append([]string{}, f.Opened...)
	sort.Strings(out)
	return out
}

// Leaks returns opened-but-not-closed ids and ids closed more than once.
func (f *fakeDocker) Leaks() (leaked []string, double []string) {
	f.mu.Lock()
	defer f.mu.Unlock()
	for _, id := range f.Opened {
		if f.Closed[id] == 0 {
			leaked = append(leaked, id)
		}
	}
	sort.Strings(leaked)
	return leaked, double
}
