package main

import (
	"bytes"
	"fmt"
	"go/ast"
	"go/parser"
	"go/printer"
	"go/token"
	"os"
	"path/filepath"
	"regexp"
	"sort"
	"strconv"
	"strings"
)

// The data-race clause of C18 rests on a discipline that can be read off the source: inside the bodies
// that run concurrently (function literals started by a `go` statement or handed to an errgroup's Go) every
// assignment to a variable declared OUTSIDE the body goes to an element indexed by a per-iteration variable
// of the loop that starts the body ("slot"); any other such assignment is "shared".  This generator lists
// those assignments for internal/dockerlog; Props/C18 proves from the list that they are all slots, and
// Lemmas/C18Race that under this discipline no two accesses of different goroutines conflict.

type goWrite struct{ fn, lhs, kind string }

func rootIdent(e ast.Expr) (*ast.Ident, bool) {
	indexed := false
	for {
		switch x := e.(type) {
		case *ast.Ident:
			return x, indexed
		case *ast.IndexExpr:
			indexed = true
			e = x.X
		case *ast.SelectorExpr:
			e = x.X
		case *ast.StarExpr:
			e = x.X
		case *ast.ParenExpr:
			e = x.X
		case *ast.SliceExpr:
			e = x.X
		default:
			return nil, indexed
		}
	}
}

func exprText(fset *token.FileSet, e ast.Expr) string {
	var b bytes.Buffer
	_ = printer.Fprint(&b, fset, e)
	return b.String()
}

func within(n ast.Node, pos token.Pos) bool { return n != nil && n.Pos() <= pos && pos < n.End() }

func init() {
	generatorFiles = append(generatorFiles, "GoWrites.lean")
	generators = append(generators, func(outDir, repo string) {
		fset := token.NewFileSet()
		dir := filepath.Join(repo, "internal/dockerlog")
		files, err := filepath.Glob(filepath.Join(dir, "*.go"))
		if err != nil || len(files) == 0 {
			fatal("extract gowrites: no sources in %s", dir)
		}
		sort.Strings(files)
		var writes []goWrite
		bodies := 0
		for _, path := range files {
			if strings.HasSuffix(path, "_test.go") {
				continue
			}
			f, err := parser.ParseFile(fset, path, nil, 0)
			if err != nil {
				fatal("extract gowrites: %v", err)
			}
			for _, d := range f.Decls {
				fd, ok := d.(*ast.FuncDecl)
				if !ok || fd.Body == nil {
					continue
				}
				// stack of enclosing loops while walking
				var loops []ast.Node
				var walk func(n ast.Node)
				handleBody := func(lit *ast.FuncLit) {
					bodies++
					var loop ast.Node
					if len(loops) > 0 {
						loop = loops[len(loops)-1]
					}
					perIteration := func(id *ast.Ident) bool {
						if id == nil || id.Obj == nil || loop == nil {
							return false
						}
						p := id.Obj.Pos()
						// declared by the loop that starts the body (key/value or in its body), outside the body itself
						return within(loop, p) && !within(lit, p)
					}
					record := func(lhs ast.Expr) {
						root, indexed := rootIdent(lhs)
						if root == nil {
							writes = append(writes, goWrite{fd.Name.Name, exprText(fset, lhs), "shared"})
							return
						}
						if root.Name == "_" {
							return
						}
						if root.Obj != nil && within(lit, root.Obj.Pos()) {
							return // a variable of the body itself
						}
						kind := "shared"
						if ix, ok := lhs.(*ast.IndexExpr); ok && indexed {
							if _, plain := ix.X.(*ast.Ident); plain {
								if id, ok := ix.Index.(*ast.Ident); ok && perIteration(id) {
									kind = "slot"
								}
							}
						}
						writes = append(writes, goWrite{fd.Name.Name, exprText(fset, lhs), kind})
					}
					ast.Inspect(lit.Body, func(n ast.Node) bool {
						switch s := n.(type) {
						case *ast.AssignStmt:
							for _, l := range s.Lhs {
								if s.Tok == token.DEFINE {
									// := declares; an identifier that already exists in the same scope is assigned, but
									// then it was declared inside the body as well
									if id, ok := l.(*ast.Ident); ok && (id.Obj == nil || within(lit, id.Obj.Pos())) {
										continue
									}
								}
								record(l)
							}
						case *ast.IncDecStmt:
							record(s.X)
						case *ast.RangeStmt:
							if s.Tok == token.ASSIGN {
								if s.Key != nil {
									record(s.Key)
								}
								if s.Value != nil {
									record(s.Value)
								}
							}
						case *ast.UnaryExpr:
							if s.Op == token.AND {
								// the address of an outer variable escapes into the body: treated as a shared write
								if root, _ := rootIdent(s.X); root != nil && root.Obj != nil && !within(lit, root.Obj.Pos()) {
									if _, isComposite := s.X.(*ast.CompositeLit); !isComposite {
										writes = append(writes, goWrite{fd.Name.Name, "&" + exprText(fset, s.X), "shared"})
									}
								}
							}
						}
						return true
					})
				}
				walk = func(n ast.Node) {
					ast.Inspect(n, func(m ast.Node) bool {
						switch s := m.(type) {
						case *ast.ForStmt:
							if m == n {
								return true
							}
							loops = append(loops, s)
							walk(s)
							loops = loops[:len(loops)-1]
							return false
						case *ast.RangeStmt:
							if m == n {
								return true
							}
							loops = append(loops, s)
							walk(s)
							loops = loops[:len(loops)-1]
							return false
						case *ast.GoStmt:
							if lit, ok := s.Call.Fun.(*ast.FuncLit); ok {
								handleBody(lit)
							}
						case *ast.CallExpr:
							if sel, ok := s.Fun.(*ast.SelectorExpr); ok && sel.Sel.Name == "Go" && len(s.Args) == 1 {
								if lit, ok := s.Args[0].(*ast.FuncLit); ok {
									handleBody(lit)
								}
							}
						}
						return true
					})
				}
				walk(fd.Body)
			}
		}
		// loop variables are per iteration from Go 1.22 on (go directive of go.mod)
		mod, err := os.ReadFile(filepath.Join(repo, "go.mod"))
		if err != nil {
			fatal("extract gowrites: %v", err)
		}
		m := regexp.MustCompile(`(?m)^go\s+(\d+)\.(\d+)`).FindSubmatch(mod)
		if m == nil {
			fatal("extract gowrites: no go directive in go.mod")
		}
		major, _ := strconv.Atoi(string(m[1]))
		minor, _ := strconv.Atoi(string(m[2]))
		perIter := major > 1 || (major == 1 && minor >= 22)

		var sb strings.Builder
		sb.WriteString("/-! REGENERATED by `harness extract` from /repo on every run — do not edit.\n")
		sb.WriteString("Assignments inside the concurrently running bodies of internal/dockerlog (function literals started by\n")
		sb.WriteString("`go` or handed to an errgroup's `Go`) to variables declared outside the body (go/ast): `slot` = an element\n")
		sb.WriteString("indexed by a per-iteration variable of the loop that starts the body, `shared` = anything else (including\n")
		sb.WriteString("taking the address of an outer variable).  `loopVarPerIteration`: the go directive of go.mod is >= 1.22. -/\n")
		sb.WriteString("namespace Gen\n\ninductive WKind | slot | shared\n  deriving DecidableEq, Repr\n\n")
		sb.WriteString("/-- (enclosing function, left-hand side, kind) -/\ndef goWrites : List (String × String × WKind) := [")
		for i, w := range writes {
			if i > 0 {
				sb.WriteString(", ")
			}
			fmt.Fprintf(&sb, "(%q, %q, .%s)", w.fn, w.lhs, w.kind)
		}
		sb.WriteString("]\n\n")
		fmt.Fprintf(&sb, "def goBodies : Nat := %d\n\ndef loopVarPerIteration : Bool := %v\n\nend Gen\n", bodies, perIter)
		if err := os.WriteFile(filepath.Join(outDir, "GoWrites.lean"), []byte(sb.String()), 0o644); err != nil {
			fatal("extract: %v", err)
		}
	})
}
