package main

import (
	"fmt"
	"math/rand"
	"strings"

	"github.com/tdakkota/docker-logql/internal/logql"
)

type c13TreeCase struct {
	Text string `json:"text"`
}

var logqlOpName = map[logql.BinOp]string{
	logql.OpOr: "or", logql.OpAnd: "and", logql.OpUnless: "unless", logql.OpAdd: "add", logql.OpSub: "sub", logql.OpMul: "mul",
	logql.OpDiv: "div", logql.OpMod: "mod", logql.OpPow: "pow", logql.OpEq: "eq", logql.OpNotEq: "ne", logql.OpGt: "gt",
	logql.OpGte: "ge", logql.OpLt: "lt", logql.OpLte: "le",
}

func goTree(e logql.Expr) Sexp {
	switch e := e.(type) {
	case *logql.ParenExpr:
		return L(A("paren"), goTree(e.X))
	case *logql.BinOpExpr:
		return L(A("node"), goTree(e.Left), A(logqlOpName[e.Op]), goTree(e.Right))
	case *logql.VectorExpr:
		return L(A("leaf"), N(int64(e.Value)))
	}
	return L(A("other"), A(fmt.Sprintf("%T", e)))
}

// c13Tokens turns `vector(0) + (vector(1) * vector(2))` into the model's token list.
func c13Tokens(text string) Sexp {
	symOp := map[string]string{}
	for k, v := range binOpText {
		symOp[v] = k
	}
	fields := strings.Fields(strings.NewReplacer("vector(", " v", "(", " ( ", ")", " ) ").Replace(text))
	var out []Sexp
	for i := 0; i < len(fields); i++ {
		f := fields[i]
		switch {
		case strings.HasPrefix(f, "v") && len(f) > 1 && f[1] >= '0' && f[1] <= '9':
			out = append(out, A(f[1:]))
			i++ // the closing parenthesis of vector(...)
		case f == "(":
			out = append(out, A("lp"))
		case f == ")":
			out = append(out, A("rp"))
		default:
			out = append(out, A(symOp[f]))
		}
	}
	return LS(out)
}

func init() {
	base := props["C13"]
	props["C13"] = func(c *Ctx) {
		base(c)
		if c.ReplayIn != "" {
			return
		}
		var genTree func(r *rand.Rand, n int, next *int) *MExpr
		genTree = func(r *rand.Rand, n int, next *int) *MExpr {
			if n == 1 {
				v := *next
				*next++
				return &MExpr{Kind: "vector", Val: fmt.Sprint(v)}
			}
			k := 1 + r.Intn(n-1)
			a := genTree(r, k, next)
			b := genTree(r, n-k, next)
			e := &MExpr{Kind: "bin", Op: pick(r, c13Ops), A: a, B: b}
			if r.Intn(6) == 0 {
				e.Paren = true
			}
			return e
		}
		trees := &Spec[c13TreeCase]{
			What: "BinOpParser.parseExpr Gen.prec == logql.Parse (tree shapes of binary-operator expressions, with parentheses)",
			Gen: func(r *rand.Rand) c13TreeCase {
				next := 0
				return c13TreeCase{Text: genTree(r, 2+r.Intn(6), &next).Text()}
			},
			Req: func(t c13TreeCase) Sexp { return L(A("binparse"), c13Tokens(t.Text)) },
			Impl: func(t c13TreeCase) Sexp {
				e, err := logql.Parse(t.Text, logql.ParseOptions{})
				if err != nil {
					return L(A("err"))
				}
				return L(A("ok"), goTree(e))
			},
			Nontrivial: func(t c13TreeCase, _ Sexp) bool { return strings.Count(t.Text, "vector(") >= 3 },
			// a tree-shape difference between parser and model is not by itself a wrong evaluation
			PropertyFails: func(t c13TreeCase, impl, model Sexp) bool { return false },
		}
		RunSpec(c, trees, c.Scale(3000, 60000))
		// exhaustive flat chains of up to 3 (quick) / 4 (thorough) operators
		var ex []c13TreeCase
		var rec func(prefix []string, n int)
		rec = func(prefix []string, n int) {
			if len(prefix) > 0 {
				var sb strings.Builder
				sb.WriteString("vector(0)")
				for i, op := range prefix {
					fmt.Fprintf(&sb, " %s vector(%d)", binOpText[op], i+1)
				}
				ex = append(ex, c13TreeCase{Text: sb.String()})
			}
			if n == 0 {
				return
			}
			for _, op := range c13Ops {
				rec(append(append([]string{}, prefix...), op), n-1)
			}
		}
		rec(nil, c.Scale(3, 4))
		c.CountN("c13:exhaustive-tree-chains", len(ex))
		RunCases(c, trees, ex)
	}
}
