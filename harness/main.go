package main

import (
	"encoding/json"
	"flag"
	"fmt"
	"math/rand"
	"os"
	"time"
)

// props maps a property id to its run function.
var props = map[string]func(*Ctx){}

// propsExtra: further correspondences of a property, run after the main one
var propsExtra = map[string][]func(*Ctx){}

func main() {
	if len(os.Args) < 2 {
		fatal("usage: harness run|extract ...")
	}
	switch os.Args[1] {
	case "run":
		runCmd(os.Args[2:])
	case "probe":
		probeCmd(os.Args[2:])
	case "extract":
		extractCmd(os.Args[2:])
	case "race":
		raceCmd(os.Args[2:])
	default:
		fatal("unknown command %q", os.Args[1])
	}
}

func runCmd(args []string) {
	fs := flag.NewFlagSet("run", flag.ExitOnError)
	prop := fs.String("prop", "", "property id")
	tier := fs.String("tier", "quick", "quick|thorough")
	seed := fs.Int64("seed", 1, "seed")
	driver := fs.String("driver", "", "path of the Lean driver")
	out := fs.String("out", "", "result json")
	verif := fs.String("verif", "/verif", "verif dir")
	replay := fs.String("replay", "", "replay file")
	repo := fs.String("repo", "/repo", "repository root")
	maxFail := fs.Int("maxfail", 3, "replays kept per signature")
	inflight := fs.String("inflight", "", "journal of the case being run (survives a crash of this process)")
	_ = fs.Parse(args)
	if *inflight != "" {
		if f, err := os.Create(*inflight); err == nil {
			inflightFile, inflightProp = f, *prop
		}
	}
	repoDir = *repo
	run, ok := props[*prop]
	if !ok {
		fatal("no harness for property %q", *prop)
	}
	drv, err := StartDriver(*driver)
	if err != nil {
		fatal("start driver: %v", err)
	}
	defer drv.Close()
	res := &Result{Property: *prop, Tier: *tier, Seed: *seed, Distribution: map[string]int{},
		nontrivial: map[uint64]struct{}{}, Failures: []Failure{}, Samples: []string{}}
	ctx := &Ctx{Prop: *prop, Tier: *tier, Seed: *seed, Rng: rand.New(rand.NewSource(*seed)), Drv: drv,
		Res: res, VerifDir: *verif, ReplayIn: *replay, MaxFail: *maxFail, failCount: map[string]int{}}
	start := time.Now()
	run(ctx)
	for _, extra := range propsExtra[*prop] {
		extra(ctx)
	}
	if inflightFile != nil {
		// a normal end: nothing is in flight
		name := inflightFile.Name()
		_ = inflightFile.Close()
		_ = os.Remove(name)
		inflightFile = nil
	}
	res.WallS = time.Since(start).Seconds()
	res.DistinctNontrivial = len(res.nontrivial)
	b, _ := json.MarshalIndent(res, "", " ")
	if *out == "" {
		fmt.Println(string(b))
	} else if err := os.WriteFile(*out, b, 0o644); err != nil {
		fatal("write result: %v", err)
	}
}

// repoDir is the repository the harness was built against (source files are read from it where a check
// takes a list of names from the code: the template function map for C17).
var repoDir = "/repo"
