package main

import (
	"fmt"
	"math/rand"
	"sort"
	"strconv"
	"strings"

	"github.com/docker/docker/api/types"

	"github.com/tdakkota/docker-logql/internal/dockerlog"
)

type c02Ctr struct {
	ID      string      `json:"id"`
	Names   []string    `json:"names"`
	Image   string      `json:"image"`
	ImageID string      `json:"image_id"`
	Command string      `json:"command"`
	Created int64       `json:"created"`
	State   string      `json:"state"`
	Status  string      `json:"status"`
	Labels  [][2]string `json:"labels"`
}

type c02Matcher struct {
	Label string `json:"label"`
	Op    string `json:"op"` // eq ne re nre
	Value string `json:"value,omitempty"`
	Re    *Re    `json:"re,omitempty"`
	// Bare: Re is alt(seq(bol, X), seq(Y, eol)) and is written the way people write it, `^X|Y$`
	// (outer anchors and a top-level alternation, no grouping), not in the generator's parenthesised form
	Bare bool `json:"bare,omitempty"`
}

// reText is the spelling of the regex in the query.
func (m c02Matcher) reText() string {
	if m.Bare && m.Re.Kind == "alt" && m.Re.A.Kind == "seq" && m.Re.B.Kind == "seq" &&
		m.Re.A.A.Kind == "bol" && m.Re.B.B.Kind == "eol" {
		return "^" + m.Re.A.B.Text() + "|" + m.Re.B.A.Text() + "$"
	}
	return m.Re.Text()
}

type c02Case struct {
	Inv     []c02Ctr     `json:"inv"`
	Sel     []c02Matcher `json:"sel"`
	Start   int64        `json:"start"`
	End     int64        `json:"end"`
	Instant bool         `json:"instant"`
}

func (m c02Matcher) Text() string {
	op := map[string]string{"eq": "=", "ne": "!=", "re": "=~", "nre": "!~"}[m.Op]
	v := m.Value
	if m.Re != nil {
		v = m.reText()
	}
	return m.Label + op + strconv.Quote(v)
}

func (m c02Matcher) Sexp() Sexp {
	if m.Re != nil {
		return L(A("m"), B(m.Label), A(m.Op), B(m.reText()), m.Re.Sexp())
	}
	return L(A("m"), B(m.Label), A(m.Op), B(m.Value))
}

func selText(ms []c02Matcher) string {
	parts := make([]string, len(ms))
	for i, m := range ms {
		parts[i] = m.Text()
	}
	return "{" + strings.Join(parts, ", ") + "}"
}

func (c c02Ctr) Sexp() Sexp {
	names := make([]Sexp, len(c.Names))
	for i, n := range c.Names {
		names[i] = B(n)
	}
	// the querier inserts the Docker labels in key order (the later key wins a sanitisation collision): the
	// model is handed them in that order; a key listed twice keeps its last value, as the Go map does
	sorted := append([][2]string{}, c.Labels...)
	sort.SliceStable(sorted, func(a, b int) bool { return sorted[a][0] < sorted[b][0] })
	labels := make([]Sexp, len(sorted))
	for i, kv := range sorted {
		labels[i] = L(B(kv[0]), B(kv[1]))
	}
	return L(A("ctr"), B(c.ID), LS(names), B(c.Image), B(c.ImageID), B(c.Command), B(strconv.FormatInt(c.Created, 10)),
		B(c.State), B(c.Status), LS(labels))
}

func (c c02Ctr) Docker() types.Container {
	labels := map[string]string{}
	for _, kv := range c.Labels {
		labels[kv[0]] = kv[1]
	}
	return types.Container{ID: c.ID, Names: c.Names, Image: c.Image, ImageID: c.ImageID, Command: c.Command,
		Created: c.Created, State: c.State, Status: c.Status, Labels: labels}
}

var (
	c02Names    = [][]string{{"/web"}, {"/web2"}, {"/db"}, {"db"}, {"/"}, {}, {"/web", "/alias"}, {"//x"}}
	c02Images   = []string{"nginx", "nginx:1", "redis", ""}
	c02States   = []string{"running", "exited"}
	c02Keys     = []string{"app", "msg", "com.docker.compose.service", "a.b", "tier", "9lives", "é", "container-state", "x y", "app2"}
	c02Values   = []string{"x", "y", "xy", "", "web", "a.b"}
	c02Builtins = []string{"container", "container_id", "container_name", "container_image", "container_image_id",
		"container_command", "container_created", "container_state", "container_status"}
)

func sanitisedKey(k string) string {
	// independent re-statement of the sanitisation for collision avoidance in the generator only
	var sb strings.Builder
	for i, r := range k {
		ok := r == '_' || (r >= 'a' && r <= 'z') || (r >= 'A' && r <= 'Z') || (r >= '0' && r <= '9')
		if i == 0 && r >= '0' && r <= '9' {
			sb.WriteByte('_')
		}
		if ok {
			sb.WriteRune(r)
		} else {
			sb.WriteByte('_')
		}
	}
	return sb.String()
}

func c02GenInv(r *rand.Rand, allowCollisions bool) []c02Ctr {
	n := r.Intn(7)
	inv := make([]c02Ctr, n)
	for i := range inv {
		c := c02Ctr{
			ID:      fmt.Sprintf("id%d", i),
			Names:   c02Names[r.Intn(len(c02Names))],
			Image:   c02Images[r.Intn(len(c02Images))],
			ImageID: "sha256:" + strconv.Itoa(r.Intn(3)),
			Command: []string{"run", "sh -c x", ""}[r.Intn(3)],
			Created: int64(r.Intn(3)) * 1000,
			State:   c02States[r.Intn(2)],
			Status:  []string{"Up 2 hours", "Exited (0)"}[r.Intn(2)],
		}
		seen := map[string]bool{}
		for j, nl := 0, r.Intn(4); j < nl; j++ {
			k := c02Keys[r.Intn(len(c02Keys))]
			if seen[sanitisedKey(k)] && !allowCollisions {
				continue
			}
			seen[sanitisedKey(k)] = true
			c.Labels = append(c.Labels, [2]string{k, c02Values[r.Intn(len(c02Values))]})
		}
		inv[i] = c
	}
	return inv
}

func c02GenMatcher(r *rand.Rand, inv []c02Ctr) c02Matcher {
	var label string
	switch r.Intn(5) {
	case 0:
		label = []string{"nolabel", "app3", "container_x"}[r.Intn(3)]
	case 1, 2:
		label = c02Builtins[r.Intn(len(c02Builtins))]
	default:
		label = sanitisedKey(c02Keys[r.Intn(len(c02Keys))])
	}
	// values drawn from what is present so that matchers hit
	var pool []string
	for _, c := range inv {
		d := c.Docker()
		name := ""
		if len(d.Names) > 0 {
			name = strings.TrimPrefix(d.Names[0], "/")
		}
		pool = append(pool, name, d.Image, d.State, d.ID)
		for _, kv := range c.Labels {
			pool = append(pool, kv[1])
		}
	}
	pool = append(pool, "", "x", "web")
	v := pool[r.Intn(len(pool))]
	op := []string{"eq", "ne", "re", "nre"}[r.Intn(4)]
	if len(inv) > 0 && r.Intn(3) > 0 {
		// an actual (label, value) pair of some container, so that the matcher hits
		c := inv[r.Intn(len(inv))]
		d := c.Docker()
		name := ""
		if len(d.Names) > 0 {
			name = strings.TrimPrefix(d.Names[0], "/")
		}
		pairs := [][2]string{{"container", name}, {"container_image", d.Image}, {"container_state", d.State},
			{"container_id", d.ID}, {"container_status", d.Status}, {"container_image_id", d.ImageID}}
		for _, kv := range c.Labels {
			pairs = append(pairs, [2]string{sanitisedKey(kv[0]), kv[1]})
		}
		pv := pairs[r.Intn(len(pairs))]
		label, v = pv[0], pv[1]
	}
	m := c02Matcher{Label: label, Op: op, Value: v}
	if op == "re" || op == "nre" {
		switch r.Intn(4) {
		case 0:
			m.Re = reLit(v)
		case 1: // a proper prefix: must NOT match when anchored
			if len(v) > 1 {
				m.Re = reLit(v[:len(v)-1])
			} else {
				m.Re = &Re{Kind: "star", A: &Re{Kind: "any"}}
			}
		case 2:
			m.Re = &Re{Kind: "seq", A: reLit(v[:len(v)/2]), B: &Re{Kind: "star", A: &Re{Kind: "any"}}}
		default:
			g := 0
			m.Re = genRe(r, 2, "webdxy0:/_", &g, false, nil)
		}
		if len(v) > 1 && r.Intn(5) == 0 {
			// `^X|Y$` as written by hand: X a proper prefix of a present value, Y another present value;
			// fully anchored it selects the values X and Y only, not those that merely start with X
			w := pool[r.Intn(len(pool))]
			m.Re = &Re{Kind: "alt",
				A: &Re{Kind: "seq", A: &Re{Kind: "bol"}, B: reLit(v[:1+r.Intn(len(v)-1)])},
				B: &Re{Kind: "seq", A: reLit(w), B: &Re{Kind: "eol"}}}
			m.Bare = true
		}
		m.Value = ""
	}
	return m
}

func c02Gen(r *rand.Rand) c02Case {
	t := c02Case{Inv: c02GenInv(r, true)}
	for i, n := 0, r.Intn(4); i < n; i++ {
		t.Sel = append(t.Sel, c02GenMatcher(r, t.Inv))
	}
	base := int64(1700000000)
	t.Start = (base+int64(r.Intn(100)))*1e9 + int64(r.Intn(4))*250000000
	t.End = t.Start + int64(r.Intn(4000))*250000000 + 1
	if r.Intn(6) == 0 {
		t.Instant = true
		t.End = t.Start
	}
	return t
}

func c02Logs(t c02Case) map[string][]byte {
	logs := map[string][]byte{}
	for i, c := range t.Inv {
		var b []byte
		for j := 0; j < 1+i%2; j++ {
			b = append(b, c03Frame(c03Rec{TS: "2023-11-14T22:13:20." + strconv.Itoa(100+i*10+j) + "Z", Typ: 1, Body: []byte(fmt.Sprintf("c%d-%d", i, j))})...)
		}
		logs[c.ID] = b
	}
	return logs
}

func c02Impl(t c02Case) Sexp {
	fd := &fakeDocker{Logs: c02Logs(t)}
	for _, c := range t.Inv {
		fd.Inventory = append(fd.Inventory, c.Docker())
	}
	q, err := dockerlog.NewQuerier(fd)
	if err != nil {
		return L(A("err"), A("newquerier"))
	}
	data, err := evalQuery(q, selText(t.Sel), t.Start, t.End, 0, -1)
	if err != nil {
		return L(A("err"), A(errClassOf(err)))
	}
	// container index -> labels observed on its lines
	perCtr := map[int]map[string]string{}
	for _, s := range data.StreamsResult.Result {
		for _, e := range s.Values {
			var ci, j int
			if _, err := fmt.Sscanf(e.V, "c%d-%d", &ci, &j); err != nil {
				return L(A("err"), A("foreign-line"), B(e.V))
			}
			ls := map[string]string{}
			// the line itself is the label msg of every entry, unless the container carries a Docker label of that
			// name, which overrides it like any other attribute
			ownMsg := false
			if ci >= 0 && ci < len(t.Inv) {
				for _, kv := range t.Inv[ci].Labels {
					if sanitisedKey(kv[0]) == "msg" {
						ownMsg = true
					}
				}
			}
			for k, v := range s.Stream.Value {
				if k != "msg" || ownMsg {
					ls[k] = v
				}
			}
			if old, ok := perCtr[ci]; ok && labelsSexp(old).String() != labelsSexp(ls).String() {
				return L(A("err"), A("inconsistent-origin"))
			}
			perCtr[ci] = ls
		}
	}
	opened := fd.OpenedSorted()
	idx := map[string]int{}
	for i, c := range t.Inv {
		idx[c.ID] = i
	}
	sort.Slice(opened, func(a, b int) bool { return idx[opened[a]] < idx[opened[b]] })
	var list []Sexp
	since, until := "none", "none"
	for _, id := range opened {
		ls, ok := perCtr[idx[id]]
		if !ok {
			return L(A("err"), A("opened-without-lines"), B(id))
		}
		list = append(list, L(B(id), labelsSexp(ls)))
		o := fd.Options[id]
		if since != "none" && (since != o.Since || until != o.Until) {
			return L(A("err"), A("window-differs-between-containers"))
		}
		since, until = o.Since, o.Until
		if !o.ShowStdout || !o.ShowStderr || !o.Timestamps || o.Tail != "all" || o.Follow {
			return L(A("err"), A("bad-log-options"))
		}
	}
	if len(perCtr) != len(opened) {
		return L(A("err"), A("lines-from-unopened-container"))
	}
	return L(LS(list), A(since), A(until))
}

func c02Req(t c02Case) Sexp {
	inv := make([]Sexp, len(t.Inv))
	for i, c := range t.Inv {
		inv[i] = c.Sexp()
	}
	sel := make([]Sexp, len(t.Sel))
	for i, m := range t.Sel {
		sel[i] = m.Sexp()
	}
	return L(A("select"), N(b2i(t.Instant)), LS(inv), LS(sel), N(t.Start), N(t.End))
}

func c02Equal(_ c02Case, impl, model Sexp) bool {
	if len(impl.List) == 3 && len(model.List) == 3 && len(impl.List[0].List) == 0 && impl.List[1].Atom == "none" {
		return len(model.List[0].List) == 0
	}
	return impl.String() == model.String()
}

func c02Shrink(t c02Case) []c02Case {
	var out []c02Case
	for i := range t.Inv {
		c := t
		c.Inv = append(append([]c02Ctr{}, t.Inv[:i]...), t.Inv[i+1:]...)
		for j := range c.Inv { // keep ids aligned with positions
			c.Inv[j].ID = fmt.Sprintf("id%d", j)
		}
		out = append(out, c)
	}
	for i := range t.Sel {
		c := t
		c.Sel = append(append([]c02Matcher{}, t.Sel[:i]...), t.Sel[i+1:]...)
		out = append(out, c)
	}
	for i, ctr := range t.Inv {
		for j := range ctr.Labels {
			c := t
			c.Inv = append([]c02Ctr{}, t.Inv...)
			c.Inv[i].Labels = append(append([][2]string{}, ctr.Labels[:j]...), ctr.Labels[j+1:]...)
			out = append(out, c)
		}
	}
	return out
}

func c02Signature(t c02Case, impl, model Sexp) string { return "" }

func init() {
	props["C02"] = func(c *Ctx) {
		c.Res.Rule = "case = inventory (0-6 containers, shared/prefix names, images, states, Docker label keys needing sanitisation, no sanitisation collisions) x selector (0-3 matchers over built-in, sanitised and absent labels; = != =~ !~; regexes: literal, proper prefix, prefix.*, random) x window (fractional seconds; instant or range; and, separately, the window asked for under count_over_time with range 1-300 s and offset 0-3600 s), evaluated through logql.Parse + Engine.Eval + dockerlog.Querier over a fake Docker client; non-trivial = selected set is a proper non-empty subset of the inventory; distinct by request line"
		spec := &Spec[c02Case]{
			What:   "Docker.select/getLabels/logsWindow == Engine.Eval over dockerlog.Querier (opened ids, LogsOptions, per-line labels)",
			Gen:    c02Gen,
			Req:    c02Req,
			Impl:   c02Impl,
			Equal:  c02Equal,
			Shrink: c02Shrink,
			Nontrivial: func(t c02Case, impl Sexp) bool {
				return len(impl.List) == 3 && len(impl.List[0].List) > 0 && len(impl.List[0].List) < len(t.Inv)
			},
			Signature: c02Signature,
			Tags: func(t c02Case, impl Sexp) []string {
				tags := []string{fmt.Sprintf("c02:containers=%d", len(t.Inv)), fmt.Sprintf("c02:matchers=%d", len(t.Sel))}
				for _, m := range t.Sel {
					tags = append(tags, "c02:op="+m.Op)
				}
				if impl.Head() == "err" {
					tags = append(tags, "c02:impl-err="+impl.List[1].Atom)
				} else if len(impl.List) == 3 {
					tags = append(tags, fmt.Sprintf("c02:selected=%d", len(impl.List[0].List)))
				}
				return tags
			},
		}
		RunSpec(c, spec, c.Scale(4000, 150000))

		// the window clause for metric queries: a range aggregation over [range] offset o evaluated from start
		// to end reads the logs of [start - o - range, end - o]; the daemon must be asked for exactly that window
		// in whole seconds (Docker.logsWindow of the shifted bounds)
		type mwCase struct {
			Base    c02Case `json:"base"`
			RangeS  int64   `json:"range_s"`
			OffsetS int64   `json:"offset_s"`
			StepS   int64   `json:"step_s"`
		}
		shifted := func(t mwCase) c02Case {
			b := t.Base
			b.Sel = nil
			b.Start -= (t.RangeS + t.OffsetS) * 1e9
			b.End -= t.OffsetS * 1e9
			return b
		}
		mw := &Spec[mwCase]{
			What: "Docker.logsWindow of the shifted bounds == the window dockerlog.Querier asks for under a range aggregation with offset",
			Gen: func(r *rand.Rand) mwCase {
				t := mwCase{Base: c02Gen(r), RangeS: pick(r, []int64{1, 5, 60, 300}), OffsetS: pick(r, []int64{0, 0, 1, 30, 300, 3600}), StepS: pick(r, []int64{1, 15, 60})}
				for len(t.Base.Inv) == 0 {
					t.Base = c02Gen(r)
				}
				t.Base.Sel = nil
				if t.Base.Instant {
					t.StepS = 0
				}
				return t
			},
			Req: func(t mwCase) Sexp { return c02Req(shifted(t)) },
			Impl: func(t mwCase) Sexp {
				fd := &fakeDocker{Logs: c02Logs(t.Base)}
				for _, ct := range t.Base.Inv {
					fd.Inventory = append(fd.Inventory, ct.Docker())
				}
				q, err := dockerlog.NewQuerier(fd)
				if err != nil {
					return L(A("err"), A("newquerier"))
				}
				text := fmt.Sprintf(`%s(count_over_time({container_id=~".+"}[%ds]%s))`, pick(rand.New(rand.NewSource(t.RangeS+t.OffsetS)), []string{"sum", "count", ""}), t.RangeS,
					map[bool]string{true: fmt.Sprintf(" offset %ds", t.OffsetS), false: ""}[t.OffsetS != 0])
				if _, err := evalQuery(q, text, t.Base.Start, t.Base.End, timeDur(t.StepS*1e9), -1); err != nil {
					return L(A("err"), A(errClassOf(err)))
				}
				since, until := "none", "none"
				for _, id := range fd.OpenedSorted() {
					o := fd.Options[id]
					if since != "none" && (since != o.Since || until != o.Until) {
						return L(A("err"), A("window-differs-between-containers"))
					}
					since, until = o.Since, o.Until
				}
				return L(A(since), A(until))
			},
			Equal: func(t mwCase, impl, model Sexp) bool {
				return len(model.List) == 3 && len(impl.List) == 2 && impl.List[0].String() == model.List[1].String() && impl.List[1].String() == model.List[2].String()
			},
			Nontrivial: func(t mwCase, impl Sexp) bool { return t.OffsetS != 0 },
			Tags: func(t mwCase, impl Sexp) []string {
				return []string{fmt.Sprintf("c02:metric-window offset=%v", t.OffsetS != 0), fmt.Sprintf("c02:metric-window instant=%v", t.Base.Instant)}
			},
		}
		RunSpec(c, mw, c.Scale(600, 20000))
	}
}
