package main

import (
	"fmt"
	"math/rand"
	"sort"
	"strings"
)

type c19Case struct {
	Base LogCase `json:"base"`
	F    LStage  `json:"f"`
	G    LStage  `json:"g"`
}

func genPureFilter(r *rand.Rand) LStage {
	if r.Intn(2) == 0 {
		return genStage(r, "lf")
	}
	var pred func(d int) *LPred
	pred = func(d int) *LPred {
		if d > 0 && r.Intn(3) == 0 {
			return &LPred{Kind: pick(r, []string{"and", "or"}), A: pred(d - 1), B: pred(d - 1)}
		}
		m := genMatcher(r)
		return &LPred{Kind: "m", M: &m}
	}
	return LStage{Kind: "lblf", Pred: pred(1)}
}

func negStage(s LStage) (LStage, bool) {
	neg := map[string]string{"eq": "ne", "ne": "eq", "re": "nre", "nre": "re"}
	switch {
	case s.Kind == "lf":
		n := s
		n.Op = neg[s.Op]
		return n, true
	case s.Kind == "lblf" && s.Pred.Kind == "m":
		m := *s.Pred.M
		m.Op = neg[m.Op]
		return LStage{Kind: "lblf", Pred: &LPred{Kind: "m", M: &m}}, true
	}
	return s, false
}

// flat renders a result as a sorted multiset of "labels|ts|line" strings.
func flat(res Sexp) []string {
	var out []string
	if res.Head() != "ok" {
		return nil
	}
	for _, st := range res.Args() {
		for _, e := range st.List[2:] {
			out = append(out, st.List[1].String()+"|"+e.String())
		}
	}
	sort.Strings(out)
	return out
}

func multisetSub(a, b []string) bool { // a ⊆ b as multisets (both sorted)
	j := 0
	for _, x := range a {
		for j < len(b) && b[j] < x {
			j++
		}
		if j >= len(b) || b[j] != x {
			return false
		}
		j++
	}
	return true
}

func sameSlice(a, b []string) bool { return strings.Join(a, "\x00") == strings.Join(b, "\x00") }

func c19Impl(t c19Case) Sexp {
	with := func(extra ...LStage) LogCase {
		c := t.Base
		c.Stages = append(append([]LStage{}, t.Base.Stages...), extra...)
		return c
	}
	ev := func(c LogCase) (Sexp, []string, bool) {
		r := logImpl(c, false)
		return r, flat(r), r.Head() == "ok"
	}
	_, q, ok := ev(with())
	if !ok {
		return logImpl(with(t.F), false)
	}
	rf, qf, ok1 := ev(with(t.F))
	if !ok1 {
		return rf
	}
	if !multisetSub(qf, q) {
		return L(A("relation-violated"), A("sublist"))
	}
	if nf, has := negStage(t.F); has {
		_, qn, ok := ev(with(nf))
		if !ok {
			return L(A("relation-violated"), A("negation-errors"))
		}
		u := append(append([]string{}, qf...), qn...)
		sort.Strings(u)
		if !sameSlice(u, q) {
			return L(A("relation-violated"), A("partition"))
		}
	}
	_, qfg, ok2 := ev(with(t.F, t.G))
	_, qgf, ok3 := ev(with(t.G, t.F))
	if ok2 != ok3 || (ok2 && !sameSlice(qfg, qgf)) {
		return L(A("relation-violated"), A("commute"))
	}
	_, qff, ok4 := ev(with(t.F, t.F))
	if !ok4 || !sameSlice(qff, qf) {
		return L(A("relation-violated"), A("idempotent"))
	}
	if t.F.Kind == "lblf" && t.G.Kind == "lblf" {
		_, qg, _ := ev(with(t.G))
		_, qand, oka := ev(with(LStage{Kind: "lblf", Pred: &LPred{Kind: "and", A: t.F.Pred, B: t.G.Pred}}))
		_, qor, oko := ev(with(LStage{Kind: "lblf", Pred: &LPred{Kind: "or", A: t.F.Pred, B: t.G.Pred}}))
		// intersection / union as multisets of entries of q (entries of q are distinct positions; equal
		// entries are counted by multiplicity through membership in both filtered results)
		inter, union := multisetInter(qf, qg), multisetUnion(qf, qg, q)
		if !oka || !sameSlice(qand, inter) {
			return L(A("relation-violated"), A("and-inter"))
		}
		if !oko || !sameSlice(qor, union) {
			return L(A("relation-violated"), A("or-union"))
		}
	}
	_, qt, okt := ev(with(LStage{Kind: "lf", Op: "eq", Value: ""}))
	if !okt || !sameSlice(qt, q) {
		return L(A("relation-violated"), A("true-filter"))
	}
	return rf
}

func multisetInter(a, b []string) []string {
	var out []string
	i, j := 0, 0
	for i < len(a) && j < len(b) {
		switch {
		case a[i] == b[j]:
			out = append(out, a[i])
			i++
			j++
		case a[i] < b[j]:
			i++
		default:
			j++
		}
	}
	return out
}

// multisetUnion of two filtered sub-multisets of q: an entry of q is in the union if it passes f or g.
// Since both are filters of the same q, the union has max(multiplicity) of each value.
func multisetUnion(a, b, _ []string) []string {
	var out []string
	i, j := 0, 0
	for i < len(a) || j < len(b) {
		switch {
		case i < len(a) && j < len(b) && a[i] == b[j]:
			out = append(out, a[i])
			i++
			j++
		case j >= len(b) || (i < len(a) && a[i] < b[j]):
			out = append(out, a[i])
			i++
		default:
			out = append(out, b[j])
			j++
		}
	}
	return out
}

// fixAmbiguityLast applies the drop/keep ambiguity rule to the stages appended at and after `from`.
func fixAmbiguityLast(stages []LStage, from int) {
	if from > 0 && from <= len(stages) {
		fixAmbiguity(stages[from-1:])
	}
}

func init() {
	props["C19"] = func(c *Ctx) {
		c.Res.Rule = "case = base log query q (0-2 selector matchers, 0-3 arbitrary stages incl. parsers, rewriters, distinct) x pure filters f, g (line filters with needles/regexes from the line vocabulary; label predicates over string matchers with and/or) x 0-12 records; on the implementation: q|f ⊆ q, q|f ⊎ q|¬f = q, q|f|g = q|g|f, q|f|f = q|f, and = ∩, or = ∪, |= \"\" = id are checked directly as multisets of (labels, ts, line), and q|f is compared with the model; non-trivial = both q|f and q|¬f non-empty; distinct by request line"
		spec := &Spec[c19Case]{
			What: "filter algebra on Engine.Eval results; LogQL.iterate == Engine.Eval for q|f",
			Gen: func(r *rand.Rand) c19Case {
				base := genLogCase(r, allStageKinds, 3, 12)
				// `| keep a != "x"` would read the appended negated filter as a value matcher (grammar ambiguity)
				for n := len(base.Stages); n > 0 && (base.Stages[n-1].Kind == "drop" || base.Stages[n-1].Kind == "keep") && len(base.Stages[n-1].Matchers) == 0; n = len(base.Stages) {
					base = genLogCase(r, allStageKinds, 3, 12)
				}
				base.Limit = -1
				return c19Case{Base: base, F: genPureFilter(r), G: genPureFilter(r)}
			},
			Req: func(t c19Case) Sexp {
				c := t.Base
				c.Stages = append(append([]LStage{}, t.Base.Stages...), t.F)
				return c.Req()
			},
			Impl: c19Impl,
			Shrink: func(t c19Case) []c19Case {
				var out []c19Case
				for _, b := range shrinkLogCase(t.Base) {
					if n := len(b.Stages); n > 0 && (b.Stages[n-1].Kind == "drop" || b.Stages[n-1].Kind == "keep") && len(b.Stages[n-1].Matchers) == 0 {
						continue
					}
					out = append(out, c19Case{Base: b, F: t.F, G: t.G})
				}
				return out
			},
			Nontrivial: func(t c19Case, impl Sexp) bool {
				n, _ := logResultCount(impl)
				return n > 0 && n < len(t.Base.Recs)
			},
			// the algebra is stated on the implementation's own answers: a law broken there is the failing input;
			// a q|f that merely differs from the model while every law holds is inherited from q's stages or is
			// about what a filter matches (C01), not about the algebra
			PropertyFails: func(t c19Case, impl, model Sexp) bool {
				h := impl.Head()
				return h == "relation-violated" || h == "panic" || h == "timeout"
			},
			Signature: func(t c19Case, impl, model Sexp) string {
				if impl.Head() == "relation-violated" {
					return "relation:" + impl.List[1].Atom
				}
				return ""
			},
			Tags: func(t c19Case, impl Sexp) []string {
				tags := []string{"c19:f=" + t.F.Kind, fmt.Sprintf("c19:base-stages=%d", len(t.Base.Stages))}
				if impl.Head() == "relation-violated" {
					tags = append(tags, "c19:violated="+impl.List[1].Atom)
				}
				return tags
			},
		}
		RunSpec(c, spec, c.Scale(2500, 80000))
	}
}
