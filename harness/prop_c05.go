package main

import (
	"fmt"
	"math"
	"math/big"
	"math/rand"
	"regexp"
	"sort"
	"strconv"
	"strings"
	"unicode"

	"github.com/tdakkota/docker-logql/internal/logql"
	"github.com/tdakkota/docker-logql/internal/logql/lexer"
)

// ---- C05: query text is parsed into the structure it denotes ----
//
// The Lean model `Parser.parse` is a production-by-production model of logql.Parse over the token list
// of lexer.Tokenize.  A case is a query text; the harness tokenises it with the real lexer, hands the
// tokens (and what regexp.Compile says about every string literal) to the model, and compares the
// model's syntax tree with a dump of the Go AST.  Three streams: grammar-derived valid queries in the
// canonical layout and in random layouts (whitespace, comments, quoting style, redundant
// parentheses — the real parser must additionally return the same tree for all layouts of one query),
// and single-token corruptions of them.

// lexeme of a generated query
type qlex struct {
	Text  string `json:"t"`
	IsStr bool   `json:"s,omitempty"` // Text is the *value* of a string literal
	// Kind is what the lexeme is meant to be: "w" a fixed spelling (keyword, operator, punctuation),
	// "id" an identifier, "num" / "dur" / "bytes" a numeric literal; strings have IsStr
	Kind string `json:"k,omitempty"`
}

type C05Case struct {
	Lex     []qlex `json:"lex"`
	Layout  int64  `json:"layout"` // seed of the layout variant; 0 = canonical
	Corrupt string `json:"corrupt,omitempty"`
	Text    string `json:"text"` // the rendered text (what is parsed)
	Canon   string `json:"canon"`
}

// ---- AST dump (same shape as SyntaxCodec.exprS) ----

func decS(v float64) Sexp {
	if v == 0 {
		return B("0")
	}
	if math.IsInf(v, 0) || math.IsNaN(v) {
		return A("nonfinite")
	}
	return B(strconv.FormatFloat(v, 'f', -1, 64))
}

func strOpS(op logql.BinOp) Sexp {
	switch op {
	case logql.OpEq:
		return A("eq")
	case logql.OpNotEq:
		return A("ne")
	case logql.OpRe:
		return A("re")
	case logql.OpNotRe:
		return A("nre")
	}
	return A("badop")
}

func cmpOpS(op logql.BinOp) Sexp {
	switch op {
	case logql.OpEq:
		return A("eq")
	case logql.OpNotEq:
		return A("ne")
	case logql.OpGt:
		return A("gt")
	case logql.OpGte:
		return A("ge")
	case logql.OpLt:
		return A("lt")
	case logql.OpLte:
		return A("le")
	}
	return A("badop")
}

func matcherS(m logql.LabelMatcher) Sexp {
	// the compiled regex must be present exactly for the regex operators
	if (m.Re != nil) != m.Op.IsRegex() {
		return A("re-field-inconsistent")
	}
	if m.Re != nil && m.Re.String() != m.Value && m.Re.String() != "^(?:"+m.Value+")$" {
		return L(A("re-field-differs"), B(m.Re.String()))
	}
	return L(A("m"), B(string(m.Label)), strOpS(m.Op), B(m.Value))
}

func labelsL(ls []logql.Label) Sexp {
	out := make([]Sexp, len(ls))
	for i, l := range ls {
		out[i] = B(string(l))
	}
	return LS(out)
}

func predS(p logql.LabelPredicate) Sexp {
	switch p := p.(type) {
	case *logql.LabelPredicateBinOp:
		k := "and"
		if p.Op == logql.OpOr {
			k = "or"
		} else if p.Op != logql.OpAnd {
			k = "badop"
		}
		return L(A(k), predS(p.Left), predS(p.Right))
	case *logql.LabelPredicateParen:
		return L(A("paren"), predS(p.X))
	case *logql.LabelMatcher:
		return matcherS(*p)
	case *logql.NumberFilter:
		return L(A("num"), B(string(p.Label)), cmpOpS(p.Op), decS(p.Value))
	case *logql.DurationFilter:
		return L(A("dur"), B(string(p.Label)), cmpOpS(p.Op), N(int64(p.Value)))
	case *logql.BytesFilter:
		return L(A("bytes"), B(string(p.Label)), cmpOpS(p.Op), A(strconv.FormatUint(p.Value, 10)))
	case *logql.IPFilter:
		return L(A("ip"), B(string(p.Label)), cmpOpS(p.Op), B(p.Value))
	}
	return A(fmt.Sprintf("unknown-pred-%T", p))
}

func extractionS(kind string, ls []logql.Label, es []logql.LabelExtractionExpr) Sexp {
	ps := make([]Sexp, len(es))
	for i, e := range es {
		ps[i] = L(B(string(e.Label)), B(e.Expr))
	}
	return L(A(kind), labelsL(ls), LS(ps))
}

func matchersL(ms []logql.LabelMatcher) Sexp {
	out := make([]Sexp, len(ms))
	for i, m := range ms {
		out[i] = matcherS(m)
	}
	return LS(out)
}

func stageS(s logql.PipelineStage) Sexp {
	switch s := s.(type) {
	case *logql.LineFilter:
		if (s.Re != nil) != s.Op.IsRegex() {
			return A("re-field-inconsistent")
		}
		if s.Re != nil && s.Re.String() != s.Value {
			return L(A("re-field-differs"), B(s.Re.String()))
		}
		return L(A("lf"), strOpS(s.Op), B(s.Value), N(b2i(s.IP)))
	case *logql.JSONExpressionParser:
		return extractionS("json", s.Labels, s.Exprs)
	case *logql.LogfmtExpressionParser:
		return extractionS("logfmt", s.Labels, s.Exprs)
	case *logql.RegexpLabelParser:
		idx := make([]int, 0, len(s.Mapping))
		for i := range s.Mapping {
			idx = append(idx, i)
		}
		sort.Ints(idx)
		ps := make([]Sexp, len(idx))
		for k, i := range idx {
			ps[k] = L(N(int64(i)), B(string(s.Mapping[i])))
		}
		return L(A("regexp"), B(s.Regexp.String()), LS(ps))
	case *logql.PatternLabelParser:
		return L(A("pattern"), B(s.Pattern))
	case *logql.UnpackLabelParser:
		return L(A("unpack"))
	case *logql.LineFormat:
		return L(A("linefmt"), B(s.Template))
	case *logql.DecolorizeExpr:
		return L(A("decolorize"))
	case *logql.LabelFilter:
		return L(A("lblf"), predS(s.Pred))
	case *logql.LabelFormatExpr:
		rn := make([]Sexp, len(s.Labels))
		for i, r := range s.Labels {
			rn[i] = L(B(string(r.To)), B(string(r.Label)))
		}
		tp := make([]Sexp, len(s.Values))
		for i, t := range s.Values {
			tp[i] = L(B(string(t.Label)), B(t.Template))
		}
		return L(A("lblfmt"), LS(rn), LS(tp))
	case *logql.DropLabelsExpr:
		return L(A("drop"), labelsL(s.Labels), matchersL(s.Matchers))
	case *logql.KeepLabelsExpr:
		return L(A("keep"), labelsL(s.Labels), matchersL(s.Matchers))
	case *logql.DistinctFilter:
		xs := []Sexp{A("distinct")}
		for _, l := range s.Labels {
			xs = append(xs, B(string(l)))
		}
		return LS(xs)
	}
	return A(fmt.Sprintf("unknown-stage-%T", s))
}

func stagesL(ss []logql.PipelineStage) Sexp {
	out := make([]Sexp, len(ss))
	for i, s := range ss {
		out[i] = stageS(s)
	}
	return LS(out)
}

func groupingS(g *logql.Grouping) Sexp {
	if g == nil {
		return A("none")
	}
	kw := "by"
	if g.Without {
		kw = "without"
	}
	xs := []Sexp{A(kw)}
	for _, l := range g.Labels {
		xs = append(xs, B(string(l)))
	}
	return LS(xs)
}

var binOpName = map[logql.BinOp]string{logql.OpOr: "or", logql.OpAnd: "and", logql.OpUnless: "unless", logql.OpAdd: "add", logql.OpSub: "sub",
	logql.OpMul: "mul", logql.OpDiv: "div", logql.OpMod: "mod", logql.OpPow: "pow", logql.OpEq: "eq", logql.OpNotEq: "ne", logql.OpGt: "gt",
	logql.OpGte: "ge", logql.OpLt: "lt", logql.OpLte: "le"}

func exprS(e logql.Expr) Sexp {
	switch e := e.(type) {
	case *logql.LogExpr:
		return L(A("log"), matchersL(e.Sel.Matchers), stagesL(e.Pipeline))
	case *logql.RangeAggregationExpr:
		param := A("none")
		if e.Parameter != nil {
			param = decS(*e.Parameter)
		}
		off := A("none")
		if e.Range.Offset != nil {
			off = N(int64(e.Range.Offset.Duration))
		}
		uw := A("none")
		if u := e.Range.Unwrap; u != nil {
			uw = L(A("unwrap"), B(u.Op), B(string(u.Label)), matchersL(u.Filters))
		}
		return L(A("range"), A(e.Op.String()), param, matchersL(e.Range.Sel.Matchers), stagesL(e.Range.Pipeline), N(int64(e.Range.Range)), off, uw, groupingS(e.Grouping))
	case *logql.VectorAggregationExpr:
		param := A("none")
		if e.Parameter != nil {
			param = N(int64(*e.Parameter))
		}
		return L(A("vagg"), A(e.Op.String()), param, groupingS(e.Grouping), exprS(e.Expr))
	case *logql.BinOpExpr:
		m := e.Modifier
		op := m.Op
		if op == "" {
			op = "none"
		}
		g := m.Group
		if g == "" {
			g = "none"
		}
		name, ok := binOpName[e.Op]
		if !ok {
			name = "badop"
		}
		return L(A("bin"), A(name), L(A("mod"), N(b2i(m.ReturnBool)), A(op), labelsL(m.OpLabels), A(g), labelsL(m.Include)), exprS(e.Left), exprS(e.Right))
	case *logql.LiteralExpr:
		return L(A("lit"), decS(e.Value))
	case *logql.VectorExpr:
		return L(A("vector"), decS(e.Value))
	case *logql.ParenExpr:
		return L(A("paren"), exprS(e.X))
	case *logql.LabelReplaceExpr:
		return L(A("labelreplace"), exprS(e.Expr), B(e.DstLabel), B(e.Replacement), B(e.SrcLabel), B(e.Regex))
	}
	return A(fmt.Sprintf("unknown-expr-%T", e))
}

func normDec(a Sexp) Sexp {
	if a.IsL && a.Head() == "q" && len(a.List) == 3 {
		// the model's exact rational
		r, ok := new(big.Rat).SetString(a.List[1].Atom + "/" + a.List[2].Atom)
		if !ok {
			return a
		}
		f, _ := r.Float64()
		return decS(f)
	}
	if a.IsL || !strings.HasPrefix(a.Atom, "x") {
		return a
	}
	v, err := strconv.ParseFloat(a.Bytes(), 64)
	if err != nil {
		return a
	}
	return decS(v)
}

// normNums rounds every numeric literal of a dumped tree to float64
func normNums(s Sexp) Sexp {
	if !s.IsL {
		return s
	}
	out := make([]Sexp, len(s.List))
	for i, x := range s.List {
		out[i] = normNums(x)
	}
	switch s.Head() {
	case "lit", "vector":
		if len(out) == 2 {
			out[1] = normDec(out[1])
		}
	case "num":
		if len(out) == 4 {
			out[3] = normDec(out[3])
		}
	case "range":
		if len(out) == 9 {
			out[2] = normDec(out[2])
		}
	}
	return LS(out)
}

// stripParens removes (paren X) nodes (redundant parentheses do not change the meaning)
func stripParens(s Sexp) Sexp {
	if !s.IsL {
		return s
	}
	if len(s.List) == 2 && s.Head() == "paren" {
		return stripParens(s.List[1])
	}
	out := make([]Sexp, len(s.List))
	for i, x := range s.List {
		out[i] = stripParens(x)
	}
	return LS(out)
}

// ---- tokens for the model ----

var kwName = map[lexer.TokenType]string{
	lexer.Comma: "comma", lexer.Dot: "dot", lexer.OpenBrace: "lbrace", lexer.CloseBrace: "rbrace", lexer.Eq: "eq", lexer.NotEq: "neq",
	lexer.Re: "re", lexer.NotRe: "nre", lexer.PipeExact: "pipeExact", lexer.PipeMatch: "pipeMatch", lexer.Pipe: "pipe", lexer.Unwrap: "unwrap",
	lexer.OpenParen: "lparen", lexer.CloseParen: "rparen", lexer.By: "by", lexer.Without: "without", lexer.Bool: "bool",
	lexer.OpenBracket: "lbracket", lexer.CloseBracket: "rbracket", lexer.Offset: "offset", lexer.On: "on", lexer.Ignoring: "ignoring",
	lexer.GroupLeft: "groupLeft", lexer.GroupRight: "groupRight", lexer.Or: "or", lexer.And: "and", lexer.Unless: "unless", lexer.Add: "add",
	lexer.Sub: "sub", lexer.Mul: "mul", lexer.Div: "div", lexer.Mod: "mod", lexer.Pow: "pow", lexer.CmpEq: "cmpEq", lexer.Gt: "gt",
	lexer.Gte: "gte", lexer.Lt: "lt", lexer.Lte: "lte", lexer.JSON: "json", lexer.Regexp: "regexp", lexer.Logfmt: "logfmt",
	lexer.Unpack: "unpack", lexer.Pattern: "pattern", lexer.LabelFormat: "labelFormat", lexer.LineFormat: "lineFormat", lexer.IP: "ip",
	lexer.Decolorize: "decolorize", lexer.Distinct: "distinct", lexer.Drop: "drop", lexer.Keep: "keep", lexer.Rate: "rate",
	lexer.RateCounter: "rateCounter", lexer.CountOverTime: "countOverTime", lexer.BytesRate: "bytesRate", lexer.BytesOverTime: "bytesOverTime",
	lexer.AvgOverTime: "avgOverTime", lexer.SumOverTime: "sumOverTime", lexer.MinOverTime: "minOverTime", lexer.MaxOverTime: "maxOverTime",
	lexer.StdvarOverTime: "stdvarOverTime", lexer.StddevOverTime: "stddevOverTime", lexer.QuantileOverTime: "quantileOverTime",
	lexer.FirstOverTime: "firstOverTime", lexer.LastOverTime: "lastOverTime", lexer.AbsentOverTime: "absentOverTime", lexer.Vector: "vector",
	lexer.Sum: "sum", lexer.Avg: "avg", lexer.Max: "max", lexer.Min: "min", lexer.Count: "count", lexer.Stddev: "stddev", lexer.Stdvar: "stdvar",
	lexer.Bottomk: "bottomk", lexer.Topk: "topk", lexer.Sort: "sort", lexer.SortDesc: "sortDesc", lexer.LabelReplace: "labelReplace",
	lexer.BytesConv: "bytesConv", lexer.DurationConv: "durationConv", lexer.DurationSecondsConv: "durationSecondsConv",
	lexer.ParserFlag: "parserFlag",
}

func tokS(t lexer.Token) (Sexp, bool) {
	switch t.Type {
	case lexer.Ident:
		return L(A("id"), B(t.Text)), true
	case lexer.String:
		return L(A("str"), B(t.Text)), true
	case lexer.Number:
		return L(A("num"), B(t.Text)), true
	case lexer.Duration:
		return L(A("dur"), B(t.Text)), true
	case lexer.Bytes:
		return L(A("bytes"), B(t.Text)), true
	}
	if n, ok := kwName[t.Type]; ok {
		return L(A("kw"), A(n)), true
	}
	return Sexp{}, false
}

// reEnvS says, for every string token, whether it compiles as a regular expression and which
// capturing groups are named (regexp.Compile is the oracle the parser consults)
func reEnvS(toks []lexer.Token) Sexp {
	seen := map[string]bool{}
	var out []Sexp
	for _, t := range toks {
		if t.Type != lexer.String || seen[t.Text] {
			continue
		}
		seen[t.Text] = true
		re, err := regexp.Compile(t.Text)
		if err != nil {
			out = append(out, L(B(t.Text), N(0), LS(nil)))
			continue
		}
		var names []Sexp
		for i, n := range re.SubexpNames() {
			if n != "" {
				names = append(names, L(N(int64(i)), B(n)))
			}
		}
		out = append(out, L(B(t.Text), N(1), LS(names)))
	}
	return LS(out)
}

// ---- the grammar-directed generator ----

type qgen struct {
	r   *rand.Rand
	out []qlex
}

// w appends lexemes; a text starting with NUL is an identifier (see label), everything else is
// classified by its spelling
func (g *qgen) w(ts ...string) {
	for _, t := range ts {
		if strings.HasPrefix(t, "\x00") {
			g.out = append(g.out, qlex{Text: t[1:], Kind: "id"})
			continue
		}
		g.out = append(g.out, qlex{Text: t, Kind: c05Classify(t)})
	}
}
func (g *qgen) s(v string) { g.out = append(g.out, qlex{Text: v, IsStr: true}) }

func inPool(p []string, t string) bool {
	for _, x := range p {
		if x == t {
			return true
		}
	}
	return false
}

// c05Classify: the intended kind of a non-string lexeme that is not marked as an identifier
func c05Classify(t string) string {
	switch {
	case c05Spell[t] != "":
		return "w"
	case inPool(c05Durs, t):
		return "dur"
	case inPool(c05Bytes, t):
		return "bytes"
	case inPool(c05Nums, t) || t != "" && strings.Trim(t, "0123456789.") == "":
		return "num"
	}
	return "id"
}

// c05Spell: spelling -> token, written from the LogQL grammar (independently of lexer/token.go)
var c05Spell = map[string]string{
	",": "comma", ".": "dot", "{": "lbrace", "}": "rbrace", "=": "eq", "!=": "neq", "=~": "re", "!~": "nre", "|=": "pipeExact", "|~": "pipeMatch",
	"|": "pipe", "unwrap": "unwrap", "(": "lparen", ")": "rparen", "by": "by", "without": "without", "bool": "bool", "[": "lbracket", "]": "rbracket",
	"offset": "offset", "on": "on", "ignoring": "ignoring", "group_left": "groupLeft", "group_right": "groupRight",
	"or": "or", "and": "and", "unless": "unless", "+": "add", "-": "sub", "*": "mul", "/": "div", "%": "mod", "^": "pow",
	"==": "cmpEq", ">": "gt", ">=": "gte", "<": "lt", "<=": "lte",
	"json": "json", "regexp": "regexp", "logfmt": "logfmt", "unpack": "unpack", "pattern": "pattern", "label_format": "labelFormat",
	"line_format": "lineFormat", "ip": "ip", "decolorize": "decolorize", "distinct": "distinct", "drop": "drop", "keep": "keep",
	"rate": "rate", "rate_counter": "rateCounter", "count_over_time": "countOverTime", "bytes_rate": "bytesRate", "bytes_over_time": "bytesOverTime",
	"avg_over_time": "avgOverTime", "sum_over_time": "sumOverTime", "min_over_time": "minOverTime", "max_over_time": "maxOverTime",
	"stdvar_over_time": "stdvarOverTime", "stddev_over_time": "stddevOverTime", "quantile_over_time": "quantileOverTime",
	"first_over_time": "firstOverTime", "last_over_time": "lastOverTime", "absent_over_time": "absentOverTime", "vector": "vector",
	"sum": "sum", "avg": "avg", "max": "max", "min": "min", "count": "count", "stddev": "stddev", "stdvar": "stdvar", "bottomk": "bottomk",
	"topk": "topk", "sort": "sort", "sort_desc": "sortDesc", "label_replace": "labelReplace",
	"bytes": "bytesConv", "duration": "durationConv", "duration_seconds": "durationSecondsConv",
}

// expectedToks: the token list a grammar-derived query denotes, from the generator's intention alone
func expectedToks(ls []qlex) []Sexp {
	out := make([]Sexp, len(ls))
	for i, l := range ls {
		switch {
		case l.IsStr:
			out[i] = L(A("str"), B(l.Text))
		case l.Kind == "id":
			out[i] = L(A("id"), B(l.Text))
		case l.Kind == "num":
			out[i] = L(A("num"), B(l.Text))
		case l.Kind == "dur":
			out[i] = L(A("dur"), B(l.Text))
		case l.Kind == "bytes":
			out[i] = L(A("bytes"), B(l.Text))
		default:
			out[i] = L(A("kw"), A(c05Spell[l.Text]))
		}
	}
	return out
}
func (g *qgen) chance(n int) bool { return g.r.Intn(n) == 0 }

var (
	c05Labels = []string{"a", "lvl", "c_1", "_x", "foo", "count", "ip", "rate", "sum", "duration", "bytes", "http_status", "B", "vector", "label_replace"}
	c05Values = []string{"x", "", "a b", "cr\rlf\r\n", "end\r", `q"r`, "back`tick", "new\nline", "tab\t", `\d+`, "é", "🎉", "a\\b", "0", "{}", "|", "#nocomment", "'", "x.*y"}
	c05Res    = []string{"x", "a|b", `\d+`, "^a.*z$", "(?i)err", "[a-c]+", `\.`, "", "x{2,3}", `\bfoo\b`, "é+"}
	c05BadRes = []string{"(", "[a", "x{2", `\`, "(?P<n>", "*a", "a**"}
	c05Named  = []string{`(?P<m>\w+) (?P<p>\S+)`, `(?P<status>\d{3})`, `(\d+)(?P<x>.)`, `no groups`}
	c05BadNm  = []string{`(?P<a>x)(?P<a>y)`} // duplicate names are a compile error in Go: rejected either way
	c05Durs   = []string{"5m", "1h", "30s", "1h30m", "250ms", "1d", "2w", "90s", "1m30s", "0s", "1.5h", "100us", "10ns", "1h5m10s"}
	c05Bytes  = []string{"5KB", "1MiB", "10B", "2GB", "1.5MB", "42kb", "3KiB", "1TB", "7b"}
	c05Nums   = []string{"0", "1", "5", "42", "2.5", "010", "1e3", "0755", "10", "007", ".5", "1.", "0.99", "1.5e-3", "0x10", "9223372036854775807", "123456789.123456789", "00", "0400.0"}
	c05RangeU = []string{"avg_over_time", "sum_over_time", "min_over_time", "max_over_time", "stdvar_over_time", "stddev_over_time",
		"first_over_time", "last_over_time", "rate", "rate_counter", "absent_over_time"}
	c05RangeN = []string{"count_over_time", "rate", "bytes_over_time", "bytes_rate", "absent_over_time"}
	c05RangeG = map[string]bool{"avg_over_time": true, "min_over_time": true, "max_over_time": true, "stdvar_over_time": true, "stddev_over_time": true,
		"first_over_time": true, "last_over_time": true, "quantile_over_time": true}
	c05Vec    = []string{"sum", "avg", "count", "max", "min", "stddev", "stdvar"}
	c05BinOps = []string{"or", "and", "unless", "+", "-", "*", "/", "%", "^", "==", "!=", ">", ">=", "<", "<="}
	c05Paths  = []string{"a", "a.b", `a["b c"]`, "a[0].b", `["x"]`, "items[1]"}
)

func (g *qgen) label() string { return "\x00" + pick(g.r, c05Labels) }

func (g *qgen) matcher() {
	g.w(g.label())
	switch g.r.Intn(4) {
	case 0:
		g.w("=")
		g.s(pick(g.r, c05Values))
	case 1:
		g.w("!=")
		g.s(pick(g.r, c05Values))
	case 2:
		g.w("=~")
		g.s(pick(g.r, c05Res))
	default:
		g.w("!~")
		g.s(pick(g.r, c05Res))
	}
}

func (g *qgen) selector() {
	g.w("{")
	n := g.r.Intn(4)
	for i := 0; i < n; i++ {
		if i > 0 {
			g.w(",")
		}
		g.matcher()
	}
	g.w("}")
}

func (g *qgen) identList(min int) {
	n := min + g.r.Intn(3)
	for i := 0; i < n; i++ {
		if i > 0 {
			g.w(",")
		}
		g.w(g.label())
	}
}

func (g *qgen) predUnary(depth int) {
	if g.chance(40) {
		// deep redundant parentheses
		k := 3 + g.r.Intn(4)
		for i := 0; i < k; i++ {
			g.w("(")
		}
		g.predAtom()
		for i := 0; i < k; i++ {
			g.w(")")
		}
		return
	}
	if depth > 0 && g.chance(5) {
		g.w("(")
		g.pred(depth - 1)
		g.w(")")
		return
	}
	g.predAtom()
}

func (g *qgen) predAtom() {
	l := g.label()
	switch g.r.Intn(7) {
	case 0, 1:
		g.matcher()
	case 2:
		g.w(l, pick(g.r, []string{"==", "!=", ">", ">=", "<", "<="}), pick(g.r, c05Nums[:12]))
	case 3:
		g.w(l, pick(g.r, []string{"==", "!=", ">", ">=", "<", "<="}), pick(g.r, c05Durs))
	case 4:
		g.w(l, pick(g.r, []string{"==", "!=", ">", ">=", "<", "<="}), pick(g.r, c05Bytes))
	case 5:
		g.w(l, pick(g.r, []string{"==", "!="}), "ip", "(")
		g.s(pick(g.r, []string{"10.0.0.1", "10.0.0.0/8", "192.168.0.1-192.168.0.9", "::1"}))
		g.w(")")
	default:
		g.w(l, "=")
		g.s(pick(g.r, c05Values))
	}
}

func (g *qgen) pred(depth int) {
	g.predUnary(depth)
	for depth > 0 && g.chance(3) {
		switch g.r.Intn(4) {
		case 0:
			g.w("and")
		case 1:
			g.w("or")
		case 2:
			g.w(",")
		default: // implicit and: only in front of an identifier
			g.predAtom()
			depth--
			continue
		}
		g.predUnary(depth - 1)
		depth--
	}
}

func (g *qgen) extraction() {
	n := g.r.Intn(4)
	for i := 0; i < n; i++ {
		if i > 0 && g.chance(2) {
			g.w(",")
		} else if i > 0 {
			// a missing comma is accepted only after an expression (`a="x" b`); keep it valid
			if !g.out[len(g.out)-1].IsStr {
				g.w(",")
			}
		}
		g.w(g.label())
		if g.chance(2) {
			g.w("=")
			g.s(pick(g.r, c05Paths))
		}
	}
}

func (g *qgen) labelsAndMatchers() {
	n := 1 + g.r.Intn(3)
	for i := 0; i < n; i++ {
		if i > 0 {
			g.w(",")
		}
		if g.chance(3) {
			g.matcher()
		} else {
			g.w(g.label())
		}
	}
}

func (g *qgen) stage() {
	switch g.r.Intn(16) {
	case 0, 1:
		g.w(pick(g.r, []string{"|=", "!="}))
		if g.chance(4) {
			g.w("ip", "(")
			g.s(pick(g.r, []string{"10.0.0.1", "10.0.0.0/8"}))
			g.w(")")
		} else {
			g.s(pick(g.r, c05Values))
		}
	case 2:
		g.w(pick(g.r, []string{"|~", "!~"}))
		g.s(pick(g.r, c05Res))
	case 3:
		g.w("|", "json")
		g.extraction()
	case 4:
		g.w("|", "logfmt")
		g.extraction()
	case 5:
		g.w("|", "regexp")
		g.s(pick(g.r, c05Named))
	case 6:
		g.w("|", "pattern")
		g.s(pick(g.r, []string{"<a> <b>", "<_> - <m>", "x"}))
	case 7:
		g.w("|", "unpack")
	case 8:
		g.w("|", "line_format")
		g.s(pick(g.r, []string{"{{.a}}", "x", "{{ .lvl | ToUpper }} {{__line__}}"}))
	case 9:
		g.w("|", "decolorize")
	case 10:
		g.w("|", "label_format")
		ds := distinctStrings(g.r, c05Labels, 1+g.r.Intn(3))
		for i, d := range ds {
			if i > 0 {
				g.w(",")
			}
			g.w("\x00"+d, "=")
			if g.chance(2) {
				g.w(g.label())
			} else {
				g.s(pick(g.r, []string{"{{.a}}", "t", ""}))
			}
		}
	case 11:
		g.w("|", "drop")
		g.labelsAndMatchers()
	case 12:
		g.w("|", "keep")
		g.labelsAndMatchers()
	case 13:
		g.w("|", "distinct")
		g.identList(1)
	default:
		g.w("|")
		g.pred(2)
	}
}

func (g *qgen) pipeline(max int) {
	n := g.r.Intn(max + 1)
	for i := 0; i < n; i++ {
		start := len(g.out)
		g.stage()
		// `| keep a != "x"` reads the line filter as a matcher of keep: a grammar ambiguity, not generated
		if t := g.out[start].Text; start > 0 && (t == "!=" || t == "!~") && wordLike(g.out[start-1]) {
			g.out = g.out[:start]
		}
	}
}

func (g *qgen) grouping() {
	g.w(pick(g.r, []string{"by", "without"}), "(")
	if !g.chance(5) {
		g.identList(1)
	}
	g.w(")")
}

func (g *qgen) rangeAgg() {
	unwrap := g.chance(2)
	var op string
	quant := false
	if unwrap {
		if g.chance(6) {
			op, quant = "quantile_over_time", true
		} else {
			op = pick(g.r, c05RangeU)
		}
	} else {
		op = pick(g.r, c05RangeN)
	}
	g.w(op, "(")
	if quant {
		g.w(pick(g.r, []string{"0.99", "0.5", "1", "0"}), ",")
	}
	g.selector()
	rng := func() {
		g.w("[", pick(g.r, c05Durs), "]")
		if g.chance(3) {
			g.w("offset", pick(g.r, c05Durs))
		}
	}
	first := g.chance(3)
	if first {
		rng()
	}
	g.pipeline(2)
	if unwrap {
		g.w("|", "unwrap")
		switch g.r.Intn(4) {
		case 0:
			g.w("bytes", "(", g.label(), ")")
		case 1:
			g.w("duration", "(", g.label(), ")")
		case 2:
			g.w("duration_seconds", "(", g.label(), ")")
		default:
			g.w(g.label())
		}
		for g.chance(4) {
			g.w("|")
			g.matcher()
		}
	}
	if !first {
		if !unwrap && len(g.out) > 0 && g.out[len(g.out)-1].Text == "}" {
			// `{sel} [r]`: fine
		}
		rng()
	}
	g.w(")")
	if c05RangeG[op] && g.chance(2) {
		g.grouping()
	}
}

// body of a vector aggregation: a leading number would be read as the parameter, so such bodies
// are parenthesised
func (g *qgen) aggBody(depth int) {
	start := len(g.out)
	g.metric(depth)
	if t := g.out[start].Text; !g.out[start].IsStr && (t == "-" || t == "+" || t[0] == '.' || t[0] >= '0' && t[0] <= '9') {
		body := append([]qlex{}, g.out[start:]...)
		g.out = append(g.out[:start:start], qlex{Text: "(", Kind: "w"})
		g.out = append(g.out, body...)
		g.out = append(g.out, qlex{Text: ")", Kind: "w"})
	}
}

func (g *qgen) vecAgg(depth int) {
	k := g.r.Intn(10)
	switch {
	case k < 6:
		op := pick(g.r, c05Vec)
		g.w(op)
		before := g.chance(3)
		if before {
			g.grouping()
		}
		g.w("(")
		g.aggBody(depth - 1)
		g.w(")")
		if !before && g.chance(2) {
			g.grouping()
		}
	case k < 8:
		g.w(pick(g.r, []string{"topk", "bottomk"}))
		before := g.chance(3)
		if before {
			g.grouping()
		}
		g.w("(", pick(g.r, []string{"1", "3", "10"}), ",")
		g.aggBody(depth - 1)
		g.w(")")
		if !before && g.chance(2) {
			g.grouping()
		}
	default:
		g.w(pick(g.r, []string{"sort", "sort_desc"}), "(")
		g.aggBody(depth - 1)
		g.w(")")
	}
}

func (g *qgen) modifier() {
	if g.chance(4) {
		g.w("bool")
	}
	if g.chance(3) {
		g.w(pick(g.r, []string{"on", "ignoring"}), "(")
		if !g.chance(4) {
			g.identList(1)
		}
		g.w(")")
		if g.chance(2) {
			g.w(pick(g.r, []string{"group_left", "group_right"}))
			switch g.r.Intn(3) {
			case 0:
				g.w("(", ")")
			case 1:
				g.w("(")
				g.identList(1)
				g.w(")")
			}
		}
	}
}

// operand of a binary operation (never a bare log selector)
func (g *qgen) metric1(depth int) {
	if g.chance(40) {
		k := 3 + g.r.Intn(4)
		for i := 0; i < k; i++ {
			g.w("(")
		}
		g.metric(0)
		for i := 0; i < k; i++ {
			g.w(")")
		}
		return
	}
	if depth <= 0 {
		switch g.r.Intn(4) {
		case 0:
			g.w("vector", "(", pick(g.r, c05Nums[:10]), ")")
		case 1:
			if g.chance(3) {
				g.w(pick(g.r, []string{"-", "+"}))
			}
			g.w(pick(g.r, c05Nums[:12]))
		default:
			g.rangeAgg()
		}
		return
	}
	switch g.r.Intn(10) {
	case 0, 1, 2:
		g.rangeAgg()
	case 3, 4, 5:
		g.vecAgg(depth)
	case 6:
		g.w("(")
		g.metric(depth - 1)
		g.w(")")
	case 7:
		g.w("label_replace", "(")
		g.metric(depth - 1)
		g.w(",")
		g.s(pick(g.r, []string{"dst", "a"}))
		g.w(",")
		g.s(pick(g.r, []string{"$1", "x-$1", ""}))
		g.w(",")
		g.s(pick(g.r, []string{"src", "lvl"}))
		g.w(",")
		g.s(pick(g.r, []string{"(.*)", "x(.)", ""}))
		g.w(")")
	case 8:
		g.w("vector", "(", pick(g.r, c05Nums[:10]), ")")
	default:
		if g.chance(3) {
			g.w(pick(g.r, []string{"-", "+"}))
		}
		g.w(pick(g.r, c05Nums[:12]))
	}
}

func isLitLex(ls []qlex, from int) bool {
	// the operand generated from position `from` is a bare (signed) number
	n := len(ls) - from
	if n == 1 {
		return !ls[from].IsStr && ls[from].Text != "" && (ls[from].Text[0] >= '0' && ls[from].Text[0] <= '9' || ls[from].Text[0] == '.')
	}
	if n == 2 {
		return (ls[from].Text == "-" || ls[from].Text == "+") && isLitLex(ls, from+1)
	}
	return false
}

func (g *qgen) metric(depth int) {
	start := len(g.out)
	g.metric1(depth)
	leftLit := isLitLex(g.out, start)
	for depth > 0 && g.chance(3) {
		op := pick(g.r, c05BinOps)
		logic := op == "or" || op == "and" || op == "unless"
		if logic && leftLit {
			op = "+"
			logic = false
		}
		g.w(op)
		g.modifier()
		rs := len(g.out)
		g.metric1(depth - 1)
		if logic && isLitLex(g.out, rs) {
			// a scalar in a set operation is a static error: make the operand a vector
			lit := g.out[rs:]
			g.out = append(g.out[:rs:rs], qlex{Text: "vector", Kind: "w"}, qlex{Text: "(", Kind: "w"})
			g.out = append(g.out, lit[len(lit)-1], qlex{Text: ")", Kind: "w"})
		}
		leftLit = false
		depth--
	}
}

func genC05Valid(r *rand.Rand) []qlex {
	g := &qgen{r: r}
	if r.Intn(3) == 0 {
		g.selector()
		g.pipeline(5)
	} else {
		g.metric(1 + r.Intn(3))
	}
	return g.out
}

// ---- rendering ----

func quoteStyle(r *rand.Rand, v string, canonical bool) string {
	if canonical || r == nil {
		return strconv.Quote(v)
	}
	switch r.Intn(3) {
	case 0:
		// a carriage return inside a backquoted literal is kept as it is (unlike in Go source)
		if !strings.Contains(v, "`") {
			return "`" + v + "`"
		}
		return strconv.Quote(v)
	case 1:
		// escape everything non-alphanumeric with \x / \u escapes where valid
		var sb strings.Builder
		sb.WriteByte('"')
		for _, c := range v {
			switch {
			case c < 0x80 && (c >= 'a' && c <= 'z' || c >= '0' && c <= '9' || c == ' '):
				sb.WriteRune(c)
			case c < 0x80:
				fmt.Fprintf(&sb, `\x%02x`, c)
			case c < 0x10000:
				fmt.Fprintf(&sb, `\u%04x`, c)
			default:
				fmt.Fprintf(&sb, `\U%08x`, c)
			}
		}
		sb.WriteByte('"')
		return sb.String()
	default:
		return strconv.Quote(v)
	}
}

func renderLex(ls []qlex, layout int64) string {
	var r *rand.Rand
	if layout != 0 {
		r = rand.New(rand.NewSource(layout))
	}
	var sb strings.Builder
	seps := []string{" ", "  ", "\n", "\t", " # c\n", "\n#{x=\"y\"}\n ", "\r\n"}
	for i, l := range ls {
		if i > 0 {
			if r == nil {
				sb.WriteByte(' ')
			} else {
				prev, cur := ls[i-1], l
				// two word-like lexemes need a separator; everything else may touch
				needs := wordLike(prev) && wordLike(cur)
				// `- -` would become the flag prefix `--`; `| =`, `! =`, `= =`, `= ~`, `> =`, `< =` would fuse
				if !prev.IsStr && !cur.IsStr && fuses(prev.Text, cur.Text) {
					needs = true
				}
				if needs || r.Intn(2) == 0 {
					sb.WriteString(seps[r.Intn(len(seps))])
				}
			}
		}
		if l.IsStr {
			sb.WriteString(quoteStyle(r, l.Text, r == nil))
		} else {
			sb.WriteString(l.Text)
		}
	}
	if r != nil && r.Intn(3) == 0 {
		sb.WriteString(" # trailing comment")
	}
	return sb.String()
}

func wordLike(l qlex) bool {
	if l.IsStr || l.Text == "" {
		return false
	}
	c := l.Text[0]
	e := l.Text[len(l.Text)-1]
	isW := func(b byte) bool {
		return b == '_' || b == '.' || b >= '0' && b <= '9' || b >= 'a' && b <= 'z' || b >= 'A' && b <= 'Z' || b >= 0x80
	}
	return isW(c) && isW(e)
}

func fuses(a, b string) bool {
	if a == "" || b == "" {
		return false
	}
	x, y := a[len(a)-1], b[0]
	switch {
	case x == '-' && y == '-':
		return true
	case (x == '|' || x == '!' || x == '=' || x == '>' || x == '<') && (y == '=' || y == '~'):
		return true
	case (x == '.' || x >= '0' && x <= '9') && (y == '.' || y >= '0' && y <= '9'):
		return true
	case x == '-' || x == '+': // a sign in front of a number is still two tokens; nothing fuses
		return false
	}
	return false
}

// ---- corruption ----

var c05Junk = []string{"@", "$", "?", ";", "'x'", "&", "~", "\\", ":", ",", "(", ")", "{", "}", "[", "]", "|", "=", "==", "!=", "by", "bool", "5m", "5KB", "1", "x", "sum", "rate", "unwrap", "offset", "on", "|=", "or", "and"}

func corruptLex(r *rand.Rand, ls []qlex) ([]qlex, string) {
	out := append([]qlex{}, ls...)
	if len(out) == 0 {
		return out, "none"
	}
	i := r.Intn(len(out))
	// a repeated label_format target, after a rename or after a template, adjacent or not: the targets
	// of a stage are the identifiers followed by `=` up to the next `|`
	for j, l := range out {
		if l.Text != "label_format" || l.IsStr {
			continue
		}
		var targets []int
		for k := j + 1; k+1 < len(out) && !(out[k].Text == "|" && !out[k].IsStr); k++ {
			if out[k].Kind == "id" && out[k+1].Text == "=" && !out[k+1].IsStr && (k == j+1 || out[k-1].Text == ",") {
				targets = append(targets, k)
			}
		}
		if len(targets) > 1 && r.Intn(2) == 0 {
			last := targets[len(targets)-1]
			out[last] = out[targets[r.Intn(len(targets)-1)]]
			return out, fmt.Sprintf("duptarget@%d", last)
		}
	}
	switch r.Intn(5) {
	case 0:
		return append(out[:i:i], out[i+1:]...), fmt.Sprintf("delete@%d", i)
	case 1:
		j := pick(r, c05Junk)
		out[i] = qlex{Text: j, Kind: c05Classify(j)}
		return out, fmt.Sprintf("replace@%d:%s", i, j)
	case 2:
		j := pick(r, c05Junk)
		out = append(out[:i:i], append([]qlex{{Text: j, Kind: c05Classify(j)}}, out[i:]...)...)
		return out, fmt.Sprintf("insert@%d:%s", i, j)
	case 3:
		if len(out) > 1 {
			j := r.Intn(len(out) - 1)
			out[j], out[j+1] = out[j+1], out[j]
			return out, fmt.Sprintf("swap@%d", j)
		}
		return out, "none"
	default:
		// static-rule corruptions: a bad regex, a duplicate target, a wrong literal kind
		if out[i].IsStr {
			out[i] = qlex{Text: pick(r, append(c05BadRes, c05BadNm...)), IsStr: true}
			return out, fmt.Sprintf("badstr@%d", i)
		}
		k := pick(r, append(append([]string{}, c05Nums...), "quantile_over_time", "sort", "topk", "count_over_time", "sum_over_time"))
		out[i] = qlex{Text: k, Kind: c05Classify(k)}
		return out, fmt.Sprintf("kind@%d", i)
	}
}

// ---- the property ----

func c05Parse(text string) (Sexp, error) {
	e, err := logql.Parse(text, logql.ParseOptions{})
	if err != nil {
		return Sexp{}, err
	}
	return exprS(e), nil
}

func reEnvOfLex(ls []qlex) Sexp {
	var toks []lexer.Token
	for _, l := range ls {
		if l.IsStr {
			toks = append(toks, lexer.Token{Type: lexer.String, Text: l.Text})
		}
	}
	return reEnvS(toks)
}

func c05Req(c C05Case) Sexp {
	if c.Corrupt == "" {
		// a grammar-derived query: the model parses the tokens the query *denotes* (no lexer involved)
		return L(A("parse"), reEnvOfLex(c.Lex), LS(expectedToks(c.Lex)))
	}
	toks, err := lexer.Tokenize(c.Text, lexer.TokenizeOptions{})
	if err != nil {
		// the lexer rejects the text: nothing for the parser model to say
		return L(A("noop"))
	}
	ts := make([]Sexp, 0, len(toks))
	for _, t := range toks {
		s, ok := tokS(t)
		if !ok {
			return L(A("noop"))
		}
		ts = append(ts, s)
	}
	return L(A("parse"), reEnvS(toks), LS(ts))
}

func c05Impl(c C05Case) Sexp {
	if _, err := lexer.Tokenize(c.Text, lexer.TokenizeOptions{}); err != nil {
		// must then be rejected by Parse as well
		if _, perr := logql.Parse(c.Text, logql.ParseOptions{}); perr == nil {
			return L(A("accepted-despite-lexer-error"))
		}
		if c.Corrupt == "" {
			// a grammar-derived query in some layout must tokenise
			return L(A("valid-query-does-not-tokenise"), B(err.Error()))
		}
		return A("ok")
	}
	// whatever the text: an identifier token is an identifier (a letter or underscore, then letters,
	// digits, underscores) — stray characters must not become label names
	if toks, err := lexer.Tokenize(c.Text, lexer.TokenizeOptions{}); err == nil {
		for _, t := range toks {
			if t.Type == lexer.Ident && !isIdentifierText(t.Text) {
				if _, perr := logql.Parse(c.Text, logql.ParseOptions{}); perr == nil {
					return L(A("non-identifier-accepted-as-identifier"), B(t.Text))
				}
			}
		}
	}
	if c.Corrupt == "" {
		// the lexer must produce exactly the tokens the query denotes
		toks, _ := lexer.Tokenize(c.Text, lexer.TokenizeOptions{})
		got := make([]Sexp, 0, len(toks))
		for _, t := range toks {
			s, _ := tokS(t)
			got = append(got, s)
		}
		if want := LS(expectedToks(c.Lex)); want.String() != LS(got).String() {
			return L(A("lexer-tokens-differ"), want, LS(got))
		}
	}
	tree, err := c05Parse(c.Text)
	// layout independence, on the implementation alone: every layout of the same lexemes is accepted
	// or rejected alike and yields the same tree
	if c.Layout != 0 {
		ct, cerr := c05Parse(c.Canon)
		if (cerr == nil) != (err == nil) {
			return L(A("layout-changes-acceptance"), B(fmt.Sprint(cerr)), B(fmt.Sprint(err)))
		}
		if err == nil && ct.String() != tree.String() {
			return L(A("layout-changes-tree"), ct, tree)
		}
	}
	if err != nil {
		if c.Corrupt == "" {
			// every query derived from the grammar must be accepted
			return L(A("valid-query-rejected"), B(err.Error()))
		}
		return L(A("err"))
	}
	return L(A("ok"), tree)
}

func isIdentifierText(s string) bool {
	for i, c := range s {
		switch {
		case c == '_' || unicode.IsLetter(c):
		case i > 0 && unicode.IsDigit(c):
		default:
			return false
		}
	}
	return s != ""
}

func c05Mk(ls []qlex, layout int64, corrupt string) C05Case {
	return C05Case{Lex: ls, Layout: layout, Corrupt: corrupt, Text: renderLex(ls, layout), Canon: renderLex(ls, 0)}
}

func c05Gen(r *rand.Rand) C05Case {
	ls := genC05Valid(r)
	switch r.Intn(4) {
	case 0:
		return c05Mk(ls, 0, "")
	case 1, 2:
		return c05Mk(ls, 1+r.Int63n(1<<40), "")
	default:
		cl, how := corruptLex(r, ls)
		var layout int64
		if r.Intn(2) == 0 {
			layout = 1 + r.Int63n(1<<40)
		}
		return c05Mk(cl, layout, how)
	}
}

func c05Tags(c C05Case, impl Sexp) []string {
	tags := []string{"c05:impl=" + func() string {
		if impl.IsL {
			return impl.Head()
		}
		return "lexer-reject"
	}()}
	ok := impl.Head() == "ok"
	switch {
	case c.Corrupt != "":
		kind := c.Corrupt
		if i := strings.IndexByte(kind, '@'); i >= 0 {
			kind = kind[:i]
		}
		tags = append(tags, "c05:corrupt="+kind, fmt.Sprintf("c05:corrupt-accepted=%v", ok))
	case c.Layout != 0:
		tags = append(tags, fmt.Sprintf("c05:valid-layout-variant:accepted=%v", ok))
	default:
		tags = append(tags, fmt.Sprintf("c05:valid-canonical:accepted=%v", ok))
	}
	if ok {
		s := impl.String()
		for _, k := range []string{"(log ", "(range ", "(vagg ", "(bin ", "(lit ", "(vector ", "(paren ", "(labelreplace ", "(unwrap ", "(lf ", "(json ", "(logfmt ",
			"(regexp ", "(pattern ", "(unpack", "(linefmt ", "(decolorize", "(lblf ", "(lblfmt ", "(drop ", "(keep ", "(distinct ", "(by ", "(without ", "(num ", "(dur ", "(bytes ", "(ip ", "(mod 1", " on ", " ignoring ", " left ", " right "} {
			if strings.Contains(s, k) {
				tags = append(tags, "c05:node="+strings.Trim(k, "( "))
			}
		}
	}
	n := len(c.Lex)
	switch {
	case n <= 5:
		tags = append(tags, "c05:lexemes<=5")
	case n <= 15:
		tags = append(tags, "c05:lexemes<=15")
	case n <= 40:
		tags = append(tags, "c05:lexemes<=40")
	default:
		tags = append(tags, "c05:lexemes>40")
	}
	return tags
}

func init() {
	props["C05"] = func(c *Ctx) {
		c.Res.Rule = "case = a query derived from the grammar (log queries: selector of 0-3 matchers + 0-5 stages of all kinds incl. nested label predicates with and/or/comma/implicit-and/parentheses and number/duration/bytes/ip comparisons, json/logfmt with labels and path expressions, label_format renames and templates, drop/keep with matchers; metric queries of depth 1-3: all 15 range aggregations with parameter, range-first and pipeline-first forms, offset, unwrap with conversions and filters, grouping; all 11 vector aggregations with grouping before/after and parameters; binary operations over all 15 operators with bool/on/ignoring/group_left/group_right modifiers; literals with signs, vector(), label_replace, parentheses; labels incl. names that are also function names; strings with quotes, backticks, newlines, non-ASCII) rendered (1/4) in the canonical single-space layout, (1/2) in a random layout (separators drawn from blanks, newlines, CRLF, comments, none where lexemes may touch; strings as interpreted, raw or fully escaped literals), or (1/4) after one corruption (delete / replace / insert / swap a lexeme, an uncompilable regex, a wrong literal kind or function); the text is tokenised by the real lexer and Parser.parse runs on those tokens with regexp.Compile as the regex oracle; the Go tree is compared node for node; every layout variant must be accepted like the canonical layout and give the same tree; non-trivial = accepted; distinct by text"
		spec := &Spec[C05Case]{
			What: "Parser.parse Gen.prec Gen.isLogic (lexer.Tokenize text) == logql.Parse text; layout independence of logql.Parse",
			Gen:  c05Gen,
			Req:  c05Req,
			Impl: c05Impl,
			// numbers are float64 in the implementation and exact rationals in the model: compare after
			// rounding the model's decimal to float64
			Equal: func(t C05Case, impl, model Sexp) bool { return normNums(impl).String() == normNums(model).String() },
			Shrink: func(t C05Case) []C05Case {
				var out []C05Case
				if t.Layout != 0 {
					out = append(out, c05Mk(t.Lex, 0, t.Corrupt))
				}
				for n := 8; n >= 1; n /= 2 {
					for i := 0; i+n <= len(t.Lex); i++ {
						ls := append(append([]qlex{}, t.Lex[:i]...), t.Lex[i+n:]...)
						how := t.Corrupt
						if how == "" {
							how = "shrunk" // no longer known to be derivable from the grammar
						}
						out = append(out, c05Mk(ls, t.Layout, how))
					}
				}
				return out
			},
			Nontrivial: func(t C05Case, impl Sexp) bool { return impl.Head() == "ok" },
			// the model is the grammar: a disagreement on acceptance or on the tree is the property failing
			PropertyFails: func(t C05Case, impl, model Sexp) bool { return true },
			Signature:     func(t C05Case, impl, model Sexp) string { return c05Signature(t, impl, model) },
			Tags:          c05Tags,
			Key:           func(t C05Case) string { return t.Text },
		}
		RunSpec(c, spec, c.Scale(6000, 400000))
	}
}

// c05Signature names the kind of disagreement (so that shrinking stays within it)
func c05Signature(t C05Case, impl, model Sexp) string {
	h := func(s Sexp) string {
		if s.IsL {
			return s.Head()
		}
		return s.Atom
	}
	return "impl=" + h(impl) + ",model=" + h(model)
}

// ---- lexer correspondence: Lexer.tokenize == lexer.Tokenize on texts ----

type C05LexCase struct {
	Text []byte `json:"text"`
	How  string `json:"how"`
}

var c05ByteJunk = []string{`"`, "`", `\`, "'", "#", "/", "*", "//", "/*", "*/", ".", "-", "--", "_", "0", "9", "e", "E", "x", "p", "B", "b", "w", "(", "m", "s", "h", "KB", "Mi",
	"\n", "\r", "\t", " ", "\f", "\v", "\x00", "\xc3", "\xff", "é", "µ", "\u00a0", "\ufeff", `\x4`, `é`, `\U0001F389`, `\101`, `\8`, `\'`, `\"`, "0x1", "1_0", "08", "1e", "1e+", "1.5.3", "5m3", "!", "=", "~", "|", "<", ">", "@"}

func c05LexGen(r *rand.Rand) C05LexCase {
	c := c05Gen(r)
	text := []byte(c.Text)
	how := "as-generated"
	for n := r.Intn(3); n > 0 && len(text) > 0; n-- {
		i := r.Intn(len(text) + 1)
		j := pick(r, c05ByteJunk)
		switch r.Intn(3) {
		case 0:
			text = append(append(append([]byte{}, text[:i]...), j...), text[i:]...)
		case 1:
			if i < len(text) {
				text = append(append([]byte{}, text[:i]...), text[i+1:]...)
			}
		default:
			if i < len(text) {
				text = append(append(append([]byte{}, text[:i]...), j...), text[i+1:]...)
			}
		}
		how = "byte-mutated"
	}
	return C05LexCase{Text: text, How: how}
}

func c05LexImpl(c C05LexCase) Sexp {
	toks, err := lexer.Tokenize(string(c.Text), lexer.TokenizeOptions{})
	if err != nil {
		return L(A("err"))
	}
	ts := make([]Sexp, 0, len(toks))
	for _, t := range toks {
		s, ok := tokS(t)
		if !ok {
			return L(A("unknown-token-type"), A(t.Type.String()))
		}
		ts = append(ts, s)
	}
	return L(A("ok"), LS(ts))
}

func init() {
	propsExtra["C05"] = append(propsExtra["C05"], func(c *Ctx) {
		spec := &Spec[C05LexCase]{
			What: "Lexer.tokenize text == lexer.Tokenize text",
			Gen:  c05LexGen,
			Req:  func(t C05LexCase) Sexp { return L(A("lex"), B(string(t.Text))) },
			Impl: c05LexImpl,
			Equal: func(t C05LexCase, impl, model Sexp) bool {
				if model.Head() == "unsup" {
					return true // outside the modelled sub-language (Unicode identifiers, radix literals, ...)
				}
				return impl.String() == model.String()
			},
			Shrink: func(t C05LexCase) []C05LexCase {
				var out []C05LexCase
				for n := 16; n >= 1; n /= 2 {
					for i := 0; i+n <= len(t.Text); i += max(1, n/2) {
						out = append(out, C05LexCase{Text: append(append([]byte{}, t.Text[:i]...), t.Text[i+n:]...), How: "shrunk"})
					}
				}
				return out
			},
			Nontrivial:    func(t C05LexCase, impl Sexp) bool { return impl.Head() == "ok" },
			PropertyFails: func(t C05LexCase, impl, model Sexp) bool { return false },
			Signature: func(t C05LexCase, impl, model Sexp) string {
				return "lexer:impl=" + impl.Head() + ",model=" + model.Head()
			},
			Tags: func(t C05LexCase, impl Sexp) []string {
				return []string{"c05lex:" + t.How + ":" + impl.Head()}
			},
			Key: func(t C05LexCase) string { return "lex:" + string(t.Text) },
		}
		RunSpec(c, spec, c.Scale(6000, 300000))
	})
	// the whole pipeline in Lean (Lexer.tokenize then Parser.parse) against logql.Parse on arbitrary text
	propsExtra["C05"] = append(propsExtra["C05"], func(c *Ctx) {
		spec := &Spec[C05LexCase]{
			What: "Layout.parseText text == logql.Parse text",
			Gen:  c05LexGen,
			Req: func(t C05LexCase) Sexp {
				renv := LS(nil)
				if toks, err := lexer.Tokenize(string(t.Text), lexer.TokenizeOptions{}); err == nil {
					renv = reEnvS(toks)
				}
				return L(A("parsetext"), renv, B(string(t.Text)))
			},
			Impl: func(t C05LexCase) Sexp {
				tree, err := c05Parse(string(t.Text))
				if err != nil {
					return L(A("err"))
				}
				return L(A("ok"), tree)
			},
			Equal: func(t C05LexCase, impl, model Sexp) bool {
				if model.Head() == "unsup" {
					return true
				}
				return normNums(impl).String() == normNums(model).String()
			},
			Shrink: func(t C05LexCase) []C05LexCase {
				var out []C05LexCase
				for n := 16; n >= 1; n /= 2 {
					for i := 0; i+n <= len(t.Text); i += max(1, n/2) {
						out = append(out, C05LexCase{Text: append(append([]byte{}, t.Text[:i]...), t.Text[i+n:]...), How: "shrunk"})
					}
				}
				return out
			},
			Nontrivial:    func(t C05LexCase, impl Sexp) bool { return impl.Head() == "ok" },
			PropertyFails: func(t C05LexCase, impl, model Sexp) bool { return true },
			Signature: func(t C05LexCase, impl, model Sexp) string {
				return "text:impl=" + impl.Head() + ",model=" + model.Head()
			},
			Tags: func(t C05LexCase, impl Sexp) []string {
				return []string{"c05text:" + t.How + ":" + impl.Head()}
			},
			Key: func(t C05LexCase) string { return "text:" + string(t.Text) },
		}
		RunSpec(c, spec, c.Scale(4000, 200000))
	})
}

// ---- exhaustive small scope (thorough tier) ----

// c05Alphabet: one lexeme per token kind the parser distinguishes
var c05Alphabet = []qlex{
	{Text: "a", Kind: "id"}, {Text: "x", IsStr: true}, {Text: "(", IsStr: true} /* not a regex */, {Text: "1", Kind: "num"}, {Text: "0.5", Kind: "num"},
	{Text: "5m", Kind: "dur"}, {Text: "5KB", Kind: "bytes"},
}

func init() {
	seen := map[string]bool{}
	for s := range c05Spell {
		if !seen[s] {
			seen[s] = true
			c05Alphabet = append(c05Alphabet, qlex{Text: s, Kind: "w"})
		}
	}
	sort.Slice(c05Alphabet[7:], func(i, j int) bool { return c05Alphabet[7+i].Text < c05Alphabet[7+j].Text })

	propsExtra["C05"] = append(propsExtra["C05"], func(c *Ctx) {
		if !c.Thorough() || c.ReplayIn != "" {
			return
		}
		// every token sequence of length 1-3 over the whole alphabet, and of length 4-5 over a core alphabet,
		// written with single spaces: logql.Parse and the model must agree on acceptance and on the tree
		spec := &Spec[C05Case]{
			What:          "Parser.parse Gen.prec Gen.isLogic (lexer.Tokenize text) == logql.Parse text; layout independence of logql.Parse",
			Req:           c05Req,
			Impl:          c05Impl,
			Equal:         func(t C05Case, impl, model Sexp) bool { return normNums(impl).String() == normNums(model).String() },
			Nontrivial:    func(t C05Case, impl Sexp) bool { return impl.Head() == "ok" },
			PropertyFails: func(t C05Case, impl, model Sexp) bool { return true },
			Signature:     func(t C05Case, impl, model Sexp) string { return c05Signature(t, impl, model) },
			Tags: func(t C05Case, impl Sexp) []string {
				return []string{fmt.Sprintf("c05:exhaustive:len=%d:%s", len(t.Lex), impl.Head())}
			},
			Key: func(t C05Case) string { return t.Text },
		}
		var cases []C05Case
		flush := func() {
			RunCases(c, spec, cases)
			cases = cases[:0]
		}
		var rec func(alpha []qlex, prefix []qlex, n int)
		rec = func(alpha []qlex, prefix []qlex, n int) {
			if n == 0 {
				ls := append([]qlex{}, prefix...)
				cases = append(cases, c05Mk(ls, 0, "exhaustive"))
				if len(cases) >= 20000 {
					flush()
				}
				return
			}
			for _, a := range alpha {
				rec(alpha, append(prefix, a), n-1)
			}
		}
		for n := 1; n <= 3; n++ {
			rec(c05Alphabet, nil, n)
		}
		core := []qlex{}
		for _, l := range c05Alphabet {
			switch l.Text {
			case "a", "x", "1", "5m", "{", "}", "(", ")", "[", "]", "=", "|", "|=", ",", "+", "and", "by", "sum", "rate", "vector", "unwrap", "json", "drop", "offset":
				if l.Text == "(" && l.IsStr {
					continue
				}
				core = append(core, l)
			}
		}
		rec(core, nil, 4)
		flush()
		c.Res.ExhaustiveNote = fmt.Sprintf("C05: every token sequence of length 1-3 over the %d-lexeme alphabet and of length 4 over a %d-lexeme core alphabet", len(c05Alphabet), len(core))
	})

	// the lexer on every byte string of length <= 3 over a 48-byte alphabet and of length 4 over a 22-byte one
	propsExtra["C05"] = append(propsExtra["C05"], func(c *Ctx) {
		if !c.Thorough() || c.ReplayIn != "" {
			return
		}
		spec := &Spec[C05LexCase]{
			What: "Lexer.tokenize text == lexer.Tokenize text",
			Req:  func(t C05LexCase) Sexp { return L(A("lex"), B(string(t.Text))) },
			Impl: c05LexImpl,
			Equal: func(t C05LexCase, impl, model Sexp) bool {
				return model.Head() == "unsup" || impl.String() == model.String()
			},
			Nontrivial:    func(t C05LexCase, impl Sexp) bool { return impl.Head() == "ok" },
			PropertyFails: func(t C05LexCase, impl, model Sexp) bool { return false },
			Signature: func(t C05LexCase, impl, model Sexp) string {
				return "lexer:impl=" + impl.Head() + ",model=" + model.Head()
			},
			Tags: func(t C05LexCase, impl Sexp) []string { return []string{"c05lex:exhaustive:" + impl.Head()} },
			Key:  func(t C05LexCase) string { return "lex:" + string(t.Text) },
		}
		full := []byte("ab_w(){}[]|=!~<>+-*/%^.,#\"`'\\ \n\t09eE5xmKsBi:@\x00\xc3\xa9")
		small := []byte("a(|=!~-/*.#\"`\\ \n15meK")
		var cases []C05LexCase
		var rec func(alpha []byte, prefix []byte, n int)
		rec = func(alpha []byte, prefix []byte, n int) {
			if n == 0 {
				cases = append(cases, C05LexCase{Text: append([]byte{}, prefix...), How: "exhaustive"})
				if len(cases) >= 20000 {
					RunCases(c, spec, cases)
					cases = cases[:0]
				}
				return
			}
			for _, b := range alpha {
				rec(alpha, append(prefix, b), n-1)
			}
		}
		for n := 0; n <= 3; n++ {
			rec(full, nil, n)
		}
		rec(small, nil, 4)
		RunCases(c, spec, cases)
	})
}
