package main

import (
	"context"
	"sort"
	"strings"
	"time"

	"github.com/tdakkota/docker-logql/internal/logql/logqlengine"
	"github.com/tdakkota/docker-logql/internal/lokiapi"
	"github.com/tdakkota/docker-logql/internal/otelstorage"
)

// evalQuery runs a query through the real engine.
func evalQuery(q logqlengine.Querier, query string, start, end int64, step time.Duration, limit int) (lokiapi.QueryResponseData, error) {
	eng := logqlengine.NewEngine(q, logqlengine.Options{})
	return eng.Eval(context.Background(), query, logqlengine.EvalParams{
		Start: otelstorage.Timestamp(start), End: otelstorage.Timestamp(end), Step: step, Limit: limit, Direction: "forward",
	})
}

func labelsSexp(m map[string]string) Sexp {
	keys := make([]string, 0, len(m))
	for k := range m {
		keys = append(keys, k)
	}
	sort.Strings(keys)
	out := make([]Sexp, 0, len(keys))
	for _, k := range keys {
		out = append(out, L(B(k), B(m[k])))
	}
	return LS(out)
}

// errClassOf maps an evaluation error to a coarse class.
func errClassOf(err error) string {
	m := err.Error()
	switch {
	case strings.HasPrefix(m, "parse"):
		return "parse"
	case strings.Contains(m, "injected list error"):
		return "list"
	case strings.Contains(m, "injected open error"):
		return "open"
	case strings.Contains(m, "injected read error"), strings.Contains(m, "read message"), strings.Contains(m, "read header"),
		strings.Contains(m, "daemon log stream error"), strings.Contains(m, "parse log line"):
		return "stream"
	case strings.Contains(m, "build"):
		return "build"
	}
	return "other"
}

func timeDur(ns int64) time.Duration { return time.Duration(ns) }

// streamsSexp canonicalises a streams result like logImpl does.
func streamsSexp(data lokiapi.QueryResponseData, normNested bool) Sexp {
	type acc struct {
		ls map[string]string
		es []lokiEntry
	}
	merged := map[string]*acc{}
	var order []string
	for _, s := range data.StreamsResult.Result {
		ls := map[string]string{}
		for k, v := range s.Stream.Value {
			if k != "__error_details__" {
				ls[k] = v
			}
		}
		key := labelsSexp(ls).String()
		if _, ok := merged[key]; !ok {
			merged[key] = &acc{ls: ls}
			order = append(order, key)
		}
		merged[key].es = append(merged[key].es, toEntries(s.Values)...)
	}
	var streams []Sexp
	for _, key := range order {
		ls, es := merged[key].ls, merged[key].es
		sort.SliceStable(es, func(i, j int) bool {
			if es[i].T != es[j].T {
				return es[i].T < es[j].T
			}
			return es[i].V < es[j].V
		})
		xs := []Sexp{A("stream"), labelsSexp(ls)}
		for _, e := range es {
			xs = append(xs, L(A("e"), N(int64(e.T)), B(e.V)))
		}
		streams = append(streams, LS(xs))
	}
	sort.Slice(streams, func(i, j int) bool { return streams[i].String() < streams[j].String() })
	return LS(append([]Sexp{A("ok")}, streams...))
}
