package main

import (
	"context"
	"fmt"
	"github.com/tdakkota/docker-logql/internal/logql/lexer"
	"math/rand"
	"os"
	"strings"

	"github.com/tdakkota/docker-logql/internal/iterators"
	"github.com/tdakkota/docker-logql/internal/logql"
	"github.com/tdakkota/docker-logql/internal/logql/logqlengine"
	"github.com/tdakkota/docker-logql/internal/logstorage"
	"github.com/tdakkota/docker-logql/internal/otelstorage"
)

type emptyQuerier struct{}

func (emptyQuerier) Capabilities() (c logqlengine.QuerierCapabilities) { return c }
func (emptyQuerier) SelectLogs(ctx context.Context, start, end otelstorage.Timestamp, p logqlengine.SelectLogsParams) (iterators.Iterator[logstorage.Record], error) {
	return iterators.Empty[logstorage.Record](), nil
}

// probeCmd: developer tool — parse and evaluate queries given as arguments over an empty store.
func probeCmd(args []string) {
	if len(args) > 1 && args[0] == "mq" {
		// probe mq <query> <start_s> <end_s> <step_s> ts_s:labels(k=v,k=v):body ...
		var recs []LRec
		atoi := func(s string) int64 { var n int64; fmt.Sscan(s, &n); return n }
		for _, a := range args[5:] {
			p := strings.SplitN(a, ":", 3)
			rec := LRec{TS: atoi(p[0]) * 1e9, Body: p[2]}
			for _, kv := range strings.Split(p[1], ",") {
				if kv != "" {
					x := strings.SplitN(kv, "=", 2)
					rec.Attrs = append(rec.Attrs, [2]string{x[0], x[1]})
				}
			}
			recs = append(recs, rec)
		}
		for i := 0; i < 3; i++ {
			mq := &mockQuerier{recs: recs}
			data, err := evalQuery(mq, args[1], atoi(args[2])*1e9, atoi(args[3])*1e9, timeDur(atoi(args[4])*1e9), -1)
			if err != nil {
				fmt.Println("error:", err)
				return
			}
			fmt.Println(metricDataSexp(data).String())
		}
		return
	}
	if len(args) > 0 && args[0] == "e2e" {
		d, err := startFakeDaemon()
		if err != nil {
			fatal("%v", err)
		}
		defer d.Close()
		var log []byte
		for j, ts := range []int64{1700000001e9, 1700000002e9 + 5} {
			log = append(log, c03Frame(c03Rec{TS: tsText(ts), Typ: byte(1 + j%2), Body: []byte(fmt.Sprintf("line %d lvl=warn\n", j))})...)
		}
		d.Load([]e2eCtr{{ID: "id0", Name: "web", Labels: [][2]string{{"tier", "fe"}}, Log: log}, {ID: "id1", Name: "db", Log: log}})
		bin, err := pluginBinary("/verif")
		if err != nil {
			fatal("%v", err)
		}
		so, se, code, err := runPlugin(bin, d, append(args[1:], "--start=1700000000", "--end=1700000010", `{container="web"} |= "line"`))
		fmt.Printf("exit=%d err=%v\nstdout:\n%s\nstderr:\n%s\nrequests: %v\n", code, err, so, se, d.Requests())
		return
	}
	if len(args) > 0 && args[0] == "layoutrt" {
		d, err := StartDriver("/verif/lean/.lake/build/bin/driver")
		if err != nil {
			fatal("driver: %v", err)
		}
		r := rand.New(rand.NewSource(13))
		hist := map[string]int{}
		ex := map[string]string{}
		var reqs []Sexp
		var texts []string
		for i := 0; i < 30000; i++ {
			ls := genC05Valid(r)
			var items []Sexp
			for _, t := range expectedToks(ls) {
				g := r.Intn(9)
				if r.Intn(3) > 0 {
					g = r.Intn(2)
				}
				items = append(items, L(t, N(int64(r.Intn(3))), N(int64(g))))
			}
			reqs = append(reqs, L(A("layoutrt"), LS(items)))
			texts = append(texts, renderLex(ls, 0))
		}
		out, err := d.AskBatch(reqs)
		if err != nil {
			fatal("%v", err)
		}
		for i, o := range out {
			hist[o.String()]++
			ex[o.String()] = texts[i]
		}
		for k, v := range hist {
			fmt.Printf("%6d %s\n        %s\n", v, k, ex[k])
		}
		return
	}
	if len(args) > 0 && args[0] == "c05rt" {
		d, err := StartDriver("/verif/lean/.lake/build/bin/driver")
		if err != nil {
			fatal("driver: %v", err)
		}
		r := rand.New(rand.NewSource(11))
		hist := map[string]int{}
		ex := map[string]string{}
		var reqs []Sexp
		var texts []string
		for i := 0; i < 30000; i++ {
			c := c05Gen(r)
			q := c05Req(c)
			if q.Head() != "parse" {
				continue
			}
			q.List[0] = A("c05rt")
			reqs = append(reqs, q)
			texts = append(texts, c.Canon)
		}
		out, err := d.AskBatch(reqs)
		if err != nil {
			fatal("%v", err)
		}
		for i, o := range out {
			hist[o.String()]++
			ex[o.String()] = texts[i]
		}
		for k, v := range hist {
			fmt.Printf("%6d %s\n        %s\n", v, k, ex[k])
		}
		return
	}
	if len(args) > 0 && args[0] == "c05rej" {
		r := rand.New(rand.NewSource(7))
		hist := map[string]int{}
		ex := map[string]string{}
		for i := 0; i < 20000; i++ {
			ls := genC05Valid(r)
			text := renderLex(ls, 0)
			if _, err := logql.Parse(text, logql.ParseOptions{}); err != nil {
				msg := err.Error()
				if j := strings.Index(msg, " at <input>"); j >= 0 {
					msg = msg[:j]
				}
				hist[msg]++
				ex[msg] = text
			}
		}
		for k, v := range hist {
			fmt.Printf("%6d %s\n        %s\n", v, k, ex[k])
		}
		return
	}
	for _, q := range args {
		e, perr := logql.Parse(q, logql.ParseOptions{})
		toks, lerr := lexer.Tokenize(q, lexer.TokenizeOptions{})
		fmt.Fprintf(os.Stdout, "tokens (%v):", lerr)
		for _, t := range toks {
			fmt.Fprintf(os.Stdout, " %s:%q", t.Type, t.Text)
		}
		fmt.Fprintln(os.Stdout)
		if perr == nil {
			fmt.Fprintln(os.Stdout, "  tree:", exprS(e).String())
		}
		_, err := evalQuery(emptyQuerier{}, q, 20e9, 20e9, 0, -1)
		fmt.Fprintf(os.Stdout, "%q\n  parse: %v\n  eval:  %v\n", q, perr, err)
	}
}
