package main

import (
	"context"
	"fmt"
	"os"

	"github.com/tdakkota/docker-logql/internal/iterators"
	"github.com/tdakkota/docker-logql/internal/logql"
	"github.com/tdakkota/docker-logql/internal/logql/logqlengine"
	"github.com/tdakkota/docker-logql/internal/logstorage"
	"github.com/tdakkota/docker-logql/internal/otelstorage"
)

type emptyQuerier struct{}

func (emptyQuerier) Capabilities() (c logqlengine.QuerierCapabilities) { return c }
func (emptyQuerier) SelectLogs(ctx context.Context, start, end otelstorage.Timestamp, p logqlengine.SelectLogsParams) (iterators.Iterator[logstorage.Record], error) {
	return iterators.Empty[logstorage.Record](), nil
}

// probeCmd: developer tool — parse and evaluate queries given as arguments over an empty store.
func probeCmd(args []string) {
	for _, q := range args {
		_, perr := logql.Parse(q, logql.ParseOptions{})
		_, err := evalQuery(emptyQuerier{}, q, 10e9, 20e9, 0, -1)
		fmt.Fprintf(os.Stdout, "%q\n  parse: %v\n  eval:  %v\n", q, perr, err)
	}
}
