package main

import (
	"fmt"
	"math/rand"
)

func metricShrink(t MetricCase) []MetricCase {
	var out []MetricCase
	for i := range t.Recs {
		c := t
		c.Recs = append(append([]LRec{}, t.Recs[:i]...), t.Recs[i+1:]...)
		out = append(out, c)
	}
	for i, rec := range t.Recs {
		if len(rec.Attrs) > 0 {
			c := t
			c.Recs = append([]LRec{}, t.Recs...)
			c.Recs[i].Attrs = rec.Attrs[:len(rec.Attrs)-1]
			out = append(out, c)
		}
	}
	if t.Step != 0 && t.End > t.Start {
		c := t
		c.End = t.End - t.Step
		if c.End >= c.Start {
			out = append(out, c)
		}
		c2 := t
		c2.Start = t.Start + t.Step
		if c2.Start <= c2.End {
			out = append(out, c2)
		}
	}
	var sub func(e *MExpr, put func(*MExpr))
	sub = func(e *MExpr, put func(*MExpr)) {
		switch e.Kind {
		case "vagg":
			put(e.A)
			sub(e.A, func(n *MExpr) { c := *e; c.A = n; put(&c) })
			if e.Group != nil {
				c := *e
				c.Group = nil
				put(&c)
			}
		case "bin":
			if e.A.Kind != "lit" {
				put(e.A)
			}
			if e.B.Kind != "lit" {
				put(e.B)
			}
			sub(e.A, func(n *MExpr) { c := *e; c.A = n; put(&c) })
			sub(e.B, func(n *MExpr) { c := *e; c.B = n; put(&c) })
		case "range":
			if len(e.Stages) > 0 {
				c := *e
				c.Stages = nil
				put(&c)
			}
			if len(e.Sel) > 0 {
				c := *e
				c.Sel = nil
				put(&c)
			}
			if e.OffsetS != 0 {
				c := *e
				c.OffsetS = 0
				put(&c)
			}
			if e.Group != nil {
				c := *e
				c.Group = nil
				put(&c)
			}
		}
	}
	sub(&t.E, func(n *MExpr) { c := t; c.E = *n; out = append(out, c) })
	return out
}

func metricTags(prefix string, t MetricCase, impl Sexp) []string {
	tags := []string{prefix + ":impl=" + impl.Head()}
	if t.Step == 0 {
		tags = append(tags, prefix+":instant")
	} else {
		tags = append(tags, fmt.Sprintf("%s:steps=%d", prefix, min(8, (t.End-t.Start)/t.Step+1)))
	}
	var walk func(e *MExpr)
	walk = func(e *MExpr) {
		tags = append(tags, prefix+":op="+e.Kind+"/"+e.Op)
		if e.Kind == "range" {
			if e.OffsetS != 0 {
				tags = append(tags, prefix+":offset")
			}
			if t.Step != 0 {
				switch {
				case t.Step < e.RangeS*1e9:
					tags = append(tags, prefix+":step<range")
				case t.Step == e.RangeS*1e9:
					tags = append(tags, prefix+":step=range")
				default:
					tags = append(tags, prefix+":step>range")
				}
			}
		}
		if e.A != nil {
			walk(e.A)
		}
		if e.B != nil {
			walk(e.B)
		}
	}
	walk(&t.E)
	return tags
}

func metricNonEmpty(impl Sexp) (series int, points int) {
	if impl.Head() != "ok" {
		return
	}
	for _, s := range impl.List[2:] {
		series++
		points += len(s.List) - 2
	}
	return
}

func init() {
	props["C09"] = func(c *Ctx) {
		c.Res.Rule = "case = 0-20 records on a 1-second lattice (equal timestamps, samples exactly on window edges, several series, unwrap values incl. unparsable ones) x range function (count, rate, bytes, bytes_rate; sum/avg/min/max/stdvar/stddev/quantile/first/last over unwrapped values with bytes/duration conversion and post-filters, optional grouping) x range in {1,2,5,10}s x offset in {0,1,2,5}s x grid (instant, or start/end/step with step <, =, > range; one in sixteen shifted to the first seconds after the epoch, so that windows start before 1970); an eighth of the cases: a dense series of unordered unwrapped values, made ONE series by `without (v)` (the unwrapped label stays a label otherwise), under overlapping windows (range 3-10 s, step 1 s), a third of them quantile_over_time; value compared as exact rational vs float64 within 1e-9; plus a relational check: the value at a time T is the same on two different grids containing T and as an instant query at T; non-trivial = non-empty result; distinct by request line"
		gen := func(r *rand.Rand) MetricCase {
			t := MetricCase{E: *genRangeExpr(r, false), Recs: genMRecs(r, r.Intn(21)), Repeat: 2}
			genParams(r, &t)
			if r.Intn(8) == 0 {
				// overlapping windows over a dense series of unwrapped values in no particular order: each
				// window shares most of its samples with the previous one, so whatever an operation does to
				// the window it was given (sorting it, say) meets the next step
				e := genRangeExpr(r, true)
				e.Op, e.Unwrap, e.Sel, e.OffsetS = pick(r, mRangeOpsUnwrap), &MUnwrap{Label: "v"}, nil, 0
				if r.Intn(3) == 0 {
					e.Op = "quantile_over_time" // the one operation that reorders the window it is given
				}
				for !mGroupableRange[e.Op] {
					e.Op = pick(r, mRangeOpsUnwrap) // sum_over_time and rate take no grouping clause
				}
				e.RangeS = pick(r, []int64{3, 5, 10})
				e.Param = ""
				if e.Op == "quantile_over_time" {
					e.Param = pick(r, []string{"0.5", "0.25", "0.9", "1", "0"})
				}
				// the unwrapped label stays a label: without this clause every value would be a series of its own
				// and no window would hold two samples
				e.Group = &MGroup{Without: true, Labels: []string{"v"}}
				t.E = *e
				n := 6 + r.Intn(8)
				t.Recs = make([]LRec, n)
				for i := range t.Recs {
					t.Recs[i] = LRec{TS: (mT0 + int64(i)) * 1e9, Body: "x", Attrs: [][2]string{{"v", fmt.Sprint(pick(r, []int{5, 1, 3, 2, 4, 9, 7, 0, 8, 6}))}}}
				}
				t.Start, t.End, t.Step = (mT0+2)*1e9, (mT0+int64(n)+1)*1e9, 1e9
			}
			if r.Intn(16) == 0 {
				// the same shape shifted to the first seconds after 1970-01-01: windows (and offsets) reach before the epoch
				shift := t.Start - int64(r.Intn(20))*1e9
				for i := range t.Recs {
					t.Recs[i].TS -= shift
				}
				t.Start, t.End = t.Start-shift, t.End-shift
				ok := true
				for _, rec := range t.Recs {
					ok = ok && rec.TS >= 0
				}
				if !ok {
					for i := range t.Recs {
						t.Recs[i].TS += shift
					}
					t.Start, t.End = t.Start+shift, t.End+shift
				}
			}
			return t
		}
		spec := &Spec[MetricCase]{
			What:   "Metric.eval (range aggregation) == Engine.Eval",
			Gen:    gen,
			Req:    func(t MetricCase) Sexp { return t.Req() },
			Impl:   metricImpl,
			Equal:  metricEqual,
			Shrink: metricShrink,
			Nontrivial: func(t MetricCase, impl Sexp) bool {
				s, _ := metricNonEmpty(impl)
				return s > 0
			},
			Signature: func(t MetricCase, impl, model Sexp) string {
				if impl.Head() == "nondeterministic" {
					return "nondeterministic"
				}
				return ""
			},
			Tags: func(t MetricCase, impl Sexp) []string { return metricTags("c09", t, impl) },
		}
		RunSpec(c, spec, c.Scale(4000, 150000))

		// relational: value at T independent of the grid; instant == range value at T
		rel := &Spec[MetricCase]{
			What: "value at T independent of grid start/step and equal to the instant query at T (Engine.Eval); instant value == Metric.eval",
			Gen: func(r *rand.Rand) MetricCase {
				t := gen(r)
				T := (mT0 + int64(r.Intn(10))) * 1e9
				t.Start, t.End, t.Step = T, T, 0
				return t
			},
			Req: func(t MetricCase) Sexp { return t.Req() },
			Impl: func(t MetricCase) Sexp {
				inst := metricImplOnce(t)
				if inst.Err != "" {
					return inst.Sexp()
				}
				T := t.Start
				rng := rand.New(rand.NewSource(T ^ int64(len(t.Recs))))
				for g := 0; g < 3; g++ {
					step := pick(rng, []int64{1, 2, 3, 5, 7}) * 1e9
					before, after := int64(rng.Intn(4)), int64(rng.Intn(4))
					c := t
					c.Start, c.End, c.Step = T-before*step, T+after*step, step
					res := metricImplOnce(c)
					if res.Err != "" {
						return L(A("grid-errors"), res.Sexp())
					}
					// project the matrix onto T
					proj := mResult{Kind: "vector"}
					for _, s := range res.Series {
						for _, p := range s.Points {
							if p.T == T/1e6 {
								proj.Series = append(proj.Series, mSeries{Labels: s.Labels, Points: []mPoint{p}})
							}
						}
					}
					if !sameResult(proj, inst) {
						return L(A("grid-dependent"), N(c.Start), N(c.End), N(c.Step), proj.Sexp(), inst.Sexp())
					}
				}
				return inst.Sexp()
			},
			Equal:  metricEqual,
			Shrink: metricShrink,
			Nontrivial: func(t MetricCase, impl Sexp) bool {
				s, _ := metricNonEmpty(impl)
				return s > 0
			},
			Signature: func(t MetricCase, impl, model Sexp) string {
				if impl.Head() == "grid-dependent" {
					return "grid-dependent"
				}
				return ""
			},
		}
		RunSpec(c, rel, c.Scale(1500, 50000))
	}
}
