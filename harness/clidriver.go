package main

import (
	"bufio"
	"encoding/json"
	"fmt"
	"io"
	"os"
	"os/exec"
	"path/filepath"
	"sync"
)

// cliDriver is the `verif`-tagged build of cmd/docker-logql serving its line protocol.
type cliDriver struct {
	cmd *exec.Cmd
	in  io.WriteCloser
	out *bufio.Reader
	mu  sync.Mutex
}

type cliResp struct {
	Out   string `json:"out"`
	A     int64  `json:"a"`
	B     int64  `json:"b"`
	Err   string `json:"err"`
	Panic string `json:"panic"`
}

var cliOnce struct {
	sync.Once
	d   *cliDriver
	err error
}

// startCLI builds (once per run, from /repo's working tree) and starts the driver.
func startCLI(c *Ctx) *cliDriver {
	cliOnce.Do(func() {
		bin := filepath.Join(c.VerifDir, ".build", "docker-logql-verif")
		build := exec.Command("go", "build", "-tags", "verif", "-o", bin, "./cmd/docker-logql")
		build.Dir = "/repo"
		build.Env = append(os.Environ(), "GOFLAGS=-mod=mod", "GOPROXY=off", "GOSUMDB=off", "GOTOOLCHAIN=local", "CGO_ENABLED=0")
		if out, err := build.CombinedOutput(); err != nil {
			cliOnce.err = fmt.Errorf("build verif CLI: %v\n%s", err, out)
			return
		}
		cmd := exec.Command(bin)
		cmd.Env = append(os.Environ(), "DOCKER_LOGQL_VERIF_DRIVER=1", "TZ=UTC")
		in, _ := cmd.StdinPipe()
		out, _ := cmd.StdoutPipe()
		if err := cmd.Start(); err != nil {
			cliOnce.err = err
			return
		}
		cliOnce.d = &cliDriver{cmd: cmd, in: in, out: bufio.NewReaderSize(out, 1<<20)}
	})
	if cliOnce.err != nil {
		fatal("%v", cliOnce.err)
	}
	return cliOnce.d
}

func (d *cliDriver) Ask(req any) cliResp {
	d.mu.Lock()
	defer d.mu.Unlock()
	b, _ := json.Marshal(req)
	d.in.Write(append(b, '\n'))
	line, err := d.out.ReadBytes('\n')
	if err != nil {
		return cliResp{Panic: "cli driver died: " + err.Error()}
	}
	var r cliResp
	if err := json.Unmarshal(line, &r); err != nil {
		return cliResp{Panic: "bad reply: " + string(line)}
	}
	return r
}
