package main

import (
	"context"
	"fmt"
	"github.com/tdakkota/docker-logql/internal/logql"
	"math/rand"
	"time"

	"github.com/docker/docker/api/types"

	"github.com/tdakkota/docker-logql/internal/dockerlog"
	"github.com/tdakkota/docker-logql/internal/logql/logqlengine"
	"github.com/tdakkota/docker-logql/internal/logstorage"
)

type c04Case struct {
	Srcs  [][]int64 `json:"srcs"`  // per container: timestamps (ns) of its records, in log order
	Order []int     `json:"order"` // completion order of the concurrent opens (container indices)
	// Warm: the same Querier first serves a selector that matches the first container only (a query with two
	// selectors does that); the merge of all containers afterwards must not depend on it
	Warm bool `json:"warm,omitempty"`
}

func tsText(ns int64) string { return time.Unix(0, ns).UTC().Format(time.RFC3339Nano) }

func c04Fake(t c04Case, order []int) *fakeDocker {
	fd := &fakeDocker{Logs: map[string][]byte{}}
	for i, src := range t.Srcs {
		id := fmt.Sprintf("id%d", i)
		fd.Inventory = append(fd.Inventory, types.Container{ID: id, Names: []string{"/c" + id}})
		var b []byte
		for j, ts := range src {
			b = append(b, c03Frame(c03Rec{TS: tsText(ts), Typ: byte(1 + j%2), Body: []byte(fmt.Sprintf("%d-%d", i, j))})...)
		}
		fd.Logs[id] = b
	}
	for _, i := range order {
		fd.Order = append(fd.Order, fmt.Sprintf("id%d", i))
	}
	return fd
}

// c04Merge runs SelectLogs over all containers and drains the merged iterator.
func c04Merge(t c04Case, order []int) (Sexp, *fakeDocker) {
	fd := c04Fake(t, order)
	q, _ := dockerlog.NewQuerier(fd)
	if t.Warm && len(t.Srcs) > 0 {
		saved := fd.Order
		fd.Order = nil
		if w, err := q.SelectLogs(context.Background(), 0, 1<<62, logqlengine.SelectLogsParams{Labels: []logql.LabelMatcher{{Label: "container_id", Op: logql.OpEq, Value: "id0"}}}); err == nil {
			var rec logstorage.Record
			for w.Next(&rec) {
			}
			_ = w.Close()
		}
		fd.Order = saved
	}
	it, err := q.SelectLogs(context.Background(), 0, 1<<62, logqlengine.SelectLogsParams{})
	if err != nil {
		return L(A("err"), A(errClassOf(err))), fd
	}
	defer it.Close()
	// records are kept until the merged stream has ended and read only then (as the engine consumes
	// them): a record that aliases a reader's buffer and is overwritten by a later frame shows here
	var kept []logstorage.Record
	var r logstorage.Record
	for it.Next(&r) {
		kept = append(kept, r)
		if len(kept) > 10000 {
			return L(A("err"), A("runaway")), fd
		}
	}
	if err := it.Err(); err != nil {
		return L(A("err"), A(errClassOf(err))), fd
	}
	var out []Sexp
	for _, k := range kept {
		var s, j int
		if _, err := fmt.Sscanf(k.Body, "%d-%d", &s, &j); err != nil {
			return L(A("err"), A("foreign-record")), fd
		}
		out = append(out, L(N(int64(k.Timestamp)), N(int64(s)), N(int64(j))))
	}
	return LS(out), fd
}

func c04Gen(r *rand.Rand) c04Case {
	n := r.Intn(6)
	t := c04Case{}
	for i := 0; i < n; i++ {
		k := r.Intn(6)
		src := make([]int64, k)
		cur := int64(1700000000e9)
		for j := range src {
			if r.Intn(10) == 0 {
				cur -= int64(r.Intn(3)) * 1e9 // unsorted source (then only conservation + per-source order are claimed)
			} else {
				cur += int64(r.Intn(3)) * 1e9 // lattice of few values: ties within and across containers
			}
			src[j] = cur
		}
		t.Srcs = append(t.Srcs, src)
	}
	t.Order = r.Perm(n)
	t.Warm = r.Intn(3) == 0
	return t
}

func c04Req(t c04Case) Sexp {
	out, _ := c04Merge(t, t.Order)
	srcs := make([]Sexp, len(t.Srcs))
	for i, s := range t.Srcs {
		xs := make([]Sexp, len(s))
		for j, ts := range s {
			xs[j] = N(ts)
		}
		srcs[i] = LS(xs)
	}
	return L(A("isrun"), LS(srcs), out)
}

func c04Impl(t c04Case) Sexp {
	a, _ := c04Merge(t, t.Order)
	ident := make([]int, len(t.Srcs))
	for i := range ident {
		ident[i] = i
	}
	b, _ := c04Merge(t, ident)
	if a.Head() == "err" {
		return a
	}
	if a.String() != b.String() {
		return L(A("order-dependent"))
	}
	return A("ok")
}

func c04Shrink(t c04Case) []c04Case {
	var out []c04Case
	for i := range t.Srcs {
		c := c04Case{}
		c.Srcs = append(append([][]int64{}, t.Srcs[:i]...), t.Srcs[i+1:]...)
		for _, o := range t.Order {
			if o < i {
				c.Order = append(c.Order, o)
			} else if o > i {
				c.Order = append(c.Order, o-1)
			}
		}
		out = append(out, c)
	}
	for i, s := range t.Srcs {
		for j := range s {
			c := c04Case{Order: t.Order}
			c.Srcs = append([][]int64{}, t.Srcs...)
			c.Srcs[i] = append(append([]int64{}, s[:j]...), s[j+1:]...)
			out = append(out, c)
		}
	}
	return out
}

func permutations(n int) [][]int {
	if n == 0 {
		return [][]int{{}}
	}
	var out [][]int
	for _, p := range permutations(n - 1) {
		for i := 0; i <= len(p); i++ {
			q := append(append(append([]int{}, p[:i]...), n-1), p[i:]...)
			out = append(out, q)
		}
	}
	return out
}

func c04Nontrivial(t c04Case, _ Sexp) bool {
	nonEmpty := 0
	seen := map[int64]int{}
	cross := false
	for i, s := range t.Srcs {
		if len(s) > 0 {
			nonEmpty++
		}
		for _, ts := range s {
			if j, ok := seen[ts]; ok && j != i {
				cross = true
			}
			seen[ts] = i
		}
	}
	return nonEmpty >= 2 && (cross || nonEmpty >= 2)
}

func init() {
	props["C04"] = func(c *Ctx) {
		c.Res.Rule = "case = 0-5 containers x 0-5 records each on a 1-second lattice (ties within and across containers, 10% unsorted steps, empty logs) x completion order of the concurrent opens (random permutation; thorough: all permutations up to 5 containers), run through dockerlog.Querier.SelectLogs over the fake Docker client; the merged output must be accepted by Merge.isRun and be identical under the identity completion order; non-trivial = at least 2 non-empty sources; distinct by request line"
		spec := &Spec[c04Case]{
			What:       "Merge.isRun accepts the output of dockerlog mergeIter; output independent of completion order",
			Gen:        c04Gen,
			Req:        c04Req,
			Impl:       c04Impl,
			Shrink:     c04Shrink,
			Nontrivial: c04Nontrivial,
			Tags: func(t c04Case, impl Sexp) []string {
				return []string{fmt.Sprintf("c04:sources=%d", len(t.Srcs)), "c04:impl=" + impl.String()}
			},
		}
		RunSpec(c, spec, c.Scale(2500, 60000))
		// all completion orders
		maxN := c.Scale(4, 5)
		reps := c.Scale(3, 20)
		var ex []c04Case
		for n := 2; n <= maxN; n++ {
			for rep := 0; rep < reps; rep++ {
				base := c04Gen(c.Rng)
				for len(base.Srcs) != n {
					base = c04Gen(c.Rng)
				}
				for _, p := range permutations(n) {
					ex = append(ex, c04Case{Srcs: base.Srcs, Order: p})
				}
			}
		}
		c.CountN("c04:all-completion-orders-cases", len(ex))
		RunCases(c, spec, ex)
		c.Res.ExhaustiveNote = fmt.Sprintf("every completion order of the opens for %d sampled inventories of each size 2..%d", reps, maxN)
	}
}

// the heap algorithm itself: HeapMerge.merge (model of mergeIter over container/heap) must give the
// implementation's output record for record, ties included
func init() {
	propsExtra["C04"] = append(propsExtra["C04"], func(c *Ctx) {
		spec := &Spec[c04Case]{
			What: "HeapMerge.merge == SelectLogs output order (record for record)",
			Gen:  c04Gen,
			Req: func(t c04Case) Sexp {
				srcs := make([]Sexp, len(t.Srcs))
				for i, s := range t.Srcs {
					xs := make([]Sexp, len(s))
					for j, ts := range s {
						xs[j] = N(ts)
					}
					srcs[i] = LS(xs)
				}
				return L(A("heapmerge"), LS(srcs))
			},
			Impl: func(t c04Case) Sexp {
				out, _ := c04Merge(t, t.Order)
				return out
			},
			Shrink:        c04Shrink,
			Nontrivial:    func(t c04Case, impl Sexp) bool { return len(t.Srcs) >= 2 },
			PropertyFails: func(t c04Case, impl, model Sexp) bool { return false },
			Signature:     func(t c04Case, impl, model Sexp) string { return "heap-order" },
			Tags: func(t c04Case, impl Sexp) []string {
				return []string{fmt.Sprintf("c04heap:containers=%d", len(t.Srcs))}
			},
		}
		RunSpec(c, spec, c.Scale(2000, 60000))
	})
}
