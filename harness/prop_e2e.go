package main

import (
	"encoding/hex"
	"fmt"
	"math/rand"
	"strings"

	"github.com/docker/docker/api/types"

	"github.com/tdakkota/docker-logql/internal/dockerlog"
)

// End-to-end wiring: the plugin BINARY (cobra command, flag parsing, Docker client over HTTP, querier,
// engine, renderer) is run against a fake daemon on a loopback port and compared with the composition of
// the separately verified parts:
//
//	flags       -> the Lean model (Flags.parseTimeRange / parseStep, driver ops `timerange`, `step`)
//	evaluation  -> dockerlog.Querier over an in-process fake client + Engine.Eval with those parameters and
//	               the --limit value (each tied to its model by C01-C08)
//	rendering   -> renderResult through the verif hook with the --timestamp/--container/--color values (C15)
//	daemon side -> the since/until/timestamps/stdout/stderr/tail options every selected container is asked
//	               with (Docker.logsWindow: whole seconds of start and end)
//
// What remains to differ is the glue in queryCmd's RunE: which flag goes where.
type e2eCase struct {
	Ctrs      []c18Ctr   `json:"ctrs"`
	Sel       []LMatcher `json:"sel,omitempty"`
	Stages    []LStage   `json:"stages,omitempty"`
	Start     string     `json:"start,omitempty"` // flag texts ("" = flag absent)
	End       string     `json:"end"`
	Since     string     `json:"since,omitempty"`
	Step      string     `json:"step,omitempty"`
	Limit     int        `json:"limit"` // 0 = flag absent
	Timestamp *bool      `json:"timestamp,omitempty"`
	Container *bool      `json:"container,omitempty"`
	Color     bool       `json:"color,omitempty"`
	// Metric wraps the log query into count_over_time(...[10s]): the engine answers, the renderer knows
	// stream results only, so the command must fail (not print nothing and succeed)
	Metric bool `json:"metric,omitempty"`
}

func (t e2eCase) query() string {
	if t.Metric {
		return "count_over_time(" + logQueryText(t.Sel, t.Stages) + "[10s])"
	}
	return logQueryText(t.Sel, t.Stages)
}

func (t e2eCase) args() []string {
	var a []string
	if t.Start != "" {
		a = append(a, "--start="+t.Start)
	}
	a = append(a, "--end="+t.End)
	if t.Since != "" {
		a = append(a, "--since="+t.Since)
	}
	if t.Step != "" {
		a = append(a, "--step="+t.Step)
	}
	if t.Limit != 0 {
		a = append(a, fmt.Sprintf("--limit=%d", t.Limit))
	}
	if t.Timestamp != nil {
		a = append(a, fmt.Sprintf("--timestamp=%v", *t.Timestamp))
	}
	if t.Container != nil {
		a = append(a, fmt.Sprintf("--container=%v", *t.Container))
	}
	if t.Color {
		a = append(a, "--color")
	}
	return append(a, t.query())
}

func e2eGen(r *rand.Rand) e2eCase {
	base := c18Gen(r)
	// log queries over distinct timestamps: with several containers logging at one instant the rendered
	// order of those lines follows map order (C18 promises identical bytes for distinct timestamps only)
	for base.Metric != nil || base.hasTies() {
		base = c18Gen(r)
	}
	t := e2eCase{Ctrs: base.Ctrs, Sel: base.Sel, Stages: base.Stages}
	// the records sit in [mT0, mT0+11]; ranges around, inside and beside them
	lo, hi := mT0-int64(r.Intn(4)), mT0+int64(2+r.Intn(12))
	switch r.Intn(4) {
	case 0: // unix seconds
		t.Start, t.End = fmt.Sprint(lo), fmt.Sprint(hi)
	case 1: // nanoseconds / fractional
		t.Start, t.End = fmt.Sprint(lo*1e9+int64(r.Intn(3))*250000000), fmt.Sprintf("%d.%03d", hi, r.Intn(1000))
	case 2: // RFC 3339
		t.Start, t.End = tsText(lo*1e9), tsText(hi*1e9+int64(r.Intn(2))*500000000)
	default: // end and since
		t.End, t.Since = fmt.Sprint(hi), pick(r, []string{"5s", "10s", "1m", "1h"})
	}
	if r.Intn(2) == 0 {
		t.Limit = pick(r, []int{1, 2, 3, 5, -1})
	}
	if r.Intn(3) == 0 {
		// a step does not change a log query's answer, but it must be accepted or rejected as a step
		t.Step = pick(r, []string{"30s", "15", "2.5", "1m", "1h30m", "0", "abc", "-5s"})
	}
	if r.Intn(3) == 0 {
		b := r.Intn(2) == 0
		t.Timestamp = &b
	}
	if r.Intn(3) == 0 {
		b := r.Intn(2) == 0
		t.Container = &b
	}
	t.Metric = r.Intn(12) == 0
	// colour stays off: which palette colour a container gets follows the order of the result's streams,
	// which is map order and differs from run to run (C15 promises consistency within one output only)
	return t
}

func optS(s string) Sexp {
	if s == "" {
		return A("none")
	}
	return B(s)
}

func init() {
	e2e := func(c *Ctx) {
		bin, err := pluginBinary(c.VerifDir)
		if err != nil {
			fatal("%v", err)
		}
		daemon, err := startFakeDaemon()
		if err != nil {
			// no way to serve a socket here: the end-to-end part is skipped (said in the evidence), the rest stands
			c.Res.Notes = append(c.Res.Notes, "end-to-end check skipped: fake daemon could not listen: "+err.Error())
			return
		}
		defer daemon.Close()
		cli := startCLI(c)
		spec := &Spec[e2eCase]{
			What: "plugin binary against a fake daemon == flags model + querier/engine + renderResult (wiring of queryCmd)",
			Gen:  e2eGen,
			Req:  func(t e2eCase) Sexp { return L(A("noop")) },
			Impl: func(t e2eCase) Sexp {
				// 1. the flags, by the model
				// `now` only matters when --end is absent (never generated) or lies in the future: any later instant will do
				tr, err := c.Drv.Ask(L(A("timerange"), N(4102444800e9), optS(t.Start), optS(t.End), optS(t.Since)))
				if err != nil || tr.Head() != "ok" {
					return L(A("setup-error"), A("timerange"), tr)
				}
				start, end := tr.List[1].Int(), tr.List[2].Int()
				st, err := c.Drv.Ask(L(A("step"), optS(t.Step), N(start), N(end)))
				if err != nil {
					return L(A("setup-error"), A("step"), st)
				}
				stepRejected := st.Head() != "ok"
				step := int64(1e9)
				if !stepRejected {
					step = st.List[1].Int()
				}
				// 2. evaluation in process with those parameters
				cc := c18Case{Ctrs: t.Ctrs, Sel: t.Sel, Stages: t.Stages}
				q, _ := dockerlog.NewQuerier(cc.fake(nil))
				limit := -1
				if t.Limit != 0 {
					limit = t.Limit
				}
				data, eerr := evalQuery(q, t.query(), start, end, timeDur(step), limit)
				want := ""
				wantFail := eerr != nil || stepRejected || t.Metric
				if eerr == nil && !stepRejected && !t.Metric {
					type ent struct {
						T uint64 `json:"t"`
						V string `json:"v"`
					}
					type stj struct {
						Labels  map[string]string `json:"labels"`
						Entries []ent             `json:"entries"`
					}
					req := struct {
						Op        string `json:"op"`
						Timestamp bool   `json:"timestamp"`
						Container bool   `json:"container"`
						Color     bool   `json:"color"`
						Streams   []stj  `json:"streams"`
					}{Op: "render", Timestamp: t.Timestamp == nil || *t.Timestamp, Container: t.Container == nil || *t.Container, Color: t.Color}
					for _, s := range data.StreamsResult.Result {
						x := stj{Labels: s.Stream.Value}
						for _, e := range s.Values {
							x.Entries = append(x.Entries, ent{e.T, hex.EncodeToString([]byte(e.V))})
						}
						req.Streams = append(req.Streams, x)
					}
					resp := cli.Ask(req)
					if resp.Panic != "" || resp.Err != "" {
						return L(A("setup-error"), A("render"), B(resp.Panic+resp.Err))
					}
					b, _ := hex.DecodeString(resp.Out)
					want = string(b)
				}
				// 3. the binary
				var ctrs []e2eCtr
				fd := cc.fake(nil)
				for i, ct := range t.Ctrs {
					id := fmt.Sprintf("id%d", i)
					ctrs = append(ctrs, e2eCtr{ID: id, Name: ct.Name, Labels: ct.Labels, Log: fd.Logs[id]})
				}
				daemon.Load(ctrs)
				so, se, code, rerr := runPlugin(bin, daemon, t.args())
				if rerr != nil {
					return L(A("plugin-run-failed"), B(rerr.Error()), B(se))
				}
				if wantFail != (code != 0) {
					return L(A("exit-differs"), N(int64(code)), B(se), B(fmt.Sprint(eerr)))
				}
				if so != want {
					// a failing command prints nothing on stdout
					return L(A("stdout-differs"), B(want), B(so))
				}
				// 4. what the daemon was asked: every selected container once, whole seconds of start and end
				wantReq := []string{}
				for i := range t.Ctrs {
					if cc.selected(i) {
						wantReq = append(wantReq, fmt.Sprintf("id%d since=%d until=%d timestamps=1 stdout=1 stderr=1 tail=all", i, floorDiv(start, 1e9), floorDiv(end, 1e9)))
					}
				}
				if got := daemon.Requests(); !wantFail && strings.Join(got, ";") != strings.Join(wantReq, ";") {
					return L(A("daemon-requests-differ"), B(strings.Join(wantReq, ";")), B(strings.Join(got, ";")))
				}
				return A("ok")
			},
			Equal: func(t e2eCase, impl, model Sexp) bool { return !impl.IsL && impl.Atom == "ok" },
			Shrink: func(t e2eCase) []e2eCase {
				var out []e2eCase
				for i := range t.Ctrs {
					if len(t.Ctrs) > 1 {
						x := t
						x.Ctrs = append(append([]c18Ctr{}, t.Ctrs[:i]...), t.Ctrs[i+1:]...)
						out = append(out, x)
					}
				}
				for i, ct := range t.Ctrs {
					if len(ct.Recs) > 0 {
						x := t
						x.Ctrs = append([]c18Ctr{}, t.Ctrs...)
						x.Ctrs[i].Recs = ct.Recs[:len(ct.Recs)-1]
						out = append(out, x)
					}
				}
				for i := range t.Stages {
					x := t
					x.Stages = append(append([]LStage{}, t.Stages[:i]...), t.Stages[i+1:]...)
					out = append(out, x)
				}
				return out
			},
			Nontrivial: func(t e2eCase, impl Sexp) bool { return len(t.Ctrs) > 0 },
			PropertyFails: func(t e2eCase, impl, model Sexp) bool {
				return impl.Head() != "setup-error" && impl.Head() != "plugin-run-failed"
			},
			Signature: func(t e2eCase, impl, model Sexp) string { return "e2e:" + impl.Head() },
			Tags: func(t e2eCase, impl Sexp) []string {
				form := "start+end"
				if t.Since != "" {
					form = "end+since"
				}
				return []string{"e2e:" + form, fmt.Sprintf("e2e:limit=%v", t.Limit != 0), fmt.Sprintf("e2e:metric=%v", t.Metric), "e2e:impl=" + func() string {
					if impl.IsL {
						return impl.Head()
					}
					return impl.Atom
				}()}
			},
			Key:     func(t e2eCase) string { return strings.Join(t.args(), " ") + fmt.Sprint(t.Ctrs) },
			Timeout: 40e9,
		}
		c.Res.Rule += "; END TO END: the plugin binary (cobra command, flag parsing, Docker client over HTTP, querier, engine, renderer) run against a fake Docker daemon on a unix socket: 1-5 containers with Docker labels and interleaved logs (distinct timestamps) x log query (selector, line/label filters, logfmt, json, drop, label_format; 1 in 12 wrapped into count_over_time, which the engine answers and the renderer must refuse with a failing exit status and no output) x --start/--end in the four timestamp spellings or --end/--since x --limit x --timestamp/--container; its stdout must equal renderResult of Engine.Eval over the same logs with the parameters the flags model resolves, its exit status must agree, and the daemon must have been asked exactly once per selected container with since/until = whole seconds of start/end, timestamps, stdout, stderr and tail=all"
		RunSpec(c, spec, c.Scale(150, 2500))
	}
	propsExtra["C16"] = append(propsExtra["C16"], e2e)
}

func floorDiv(a, b int64) int64 {
	q := a / b
	if a%b != 0 && (a < 0) != (b < 0) {
		q--
	}
	return q
}

var _ = types.Container{}
