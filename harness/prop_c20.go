package main

import (
	"encoding/json"
	"fmt"
	"math/rand"

	"github.com/tdakkota/docker-logql/internal/dockerlog"

	"github.com/tdakkota/docker-logql/internal/logql"
	"github.com/tdakkota/docker-logql/internal/otelstorage"
)

type c20Case struct {
	Key []byte `json:"key"`
}

var c20Alphabet = []string{"a", "Z", "0", "9", "_", ".", "-", "/", " ", "é", "\xff"}

func c20Nontrivial(key string) bool {
	if key == "" {
		return false
	}
	if key[0] >= '0' && key[0] <= '9' {
		return true
	}
	for _, r := range key {
		if !(r == '_' || (r >= '0' && r <= '9') || (r >= 'a' && r <= 'z') || (r >= 'A' && r <= 'Z')) {
			return true
		}
	}
	return false
}

func c20Enumerate(maxLen int) []c20Case {
	var out []c20Case
	var rec func(prefix string, n int)
	rec = func(prefix string, n int) {
		out = append(out, c20Case{Key: []byte(prefix)})
		if n == 0 {
			return
		}
		for _, a := range c20Alphabet {
			rec(prefix+a, n-1)
		}
	}
	rec("", maxLen)
	return out
}

func init() {
	props["C20"] = func(c *Ctx) {
		c.Res.Rule = "keys over {a,Z,0,9,_,.,-,/,space,é,0xFF}: every string up to length 4 (quick) / 5 (thorough) plus random longer keys incl. arbitrary bytes and multi-byte runes; non-trivial = key starts with a digit or contains a rune outside [A-Za-z0-9_]; distinct by request line"
		k2l := &Spec[c20Case]{
			What: "KeyToLabel.run == otelstorage.KeyToLabel",
			Gen: func(r *rand.Rand) c20Case {
				n := 6 + r.Intn(20)
				var b []byte
				for i := 0; i < n; i++ {
					switch r.Intn(10) {
					case 0:
						b = append(b, byte(r.Intn(256)))
					case 1:
						b = append(b, []byte(string(rune(0x80+r.Intn(0x11000))))...)
					default:
						b = append(b, c20Alphabet[r.Intn(len(c20Alphabet))]...)
					}
				}
				return c20Case{Key: b}
			},
			Req:  func(t c20Case) Sexp { return L(A("keytolabel"), B(string(t.Key))) },
			Impl: func(t c20Case) Sexp { return B(otelstorage.KeyToLabel(string(t.Key))) },
			Shrink: func(t c20Case) []c20Case {
				var out []c20Case
				for i := range t.Key {
					k := append(append([]byte{}, t.Key[:i]...), t.Key[i+1:]...)
					out = append(out, c20Case{Key: k})
				}
				return out
			},
			Nontrivial: func(t c20Case, _ Sexp) bool { return c20Nontrivial(string(t.Key)) },
			Tags: func(t c20Case, impl Sexp) []string {
				tags := []string{}
				if impl.Bytes() == string(t.Key) {
					tags = append(tags, "k2l:unchanged")
				} else {
					tags = append(tags, "k2l:changed")
				}
				return tags
			},
		}
		if c.ReplayIn != "" {
			RunSpec(c, k2l, 0)
			return
		}
		maxLen := c.Scale(4, 5)
		RunCases(c, k2l, loadCorpus[c20Case](c, k2l.What))
		RunCases(c, k2l, c20Enumerate(maxLen))
		c.Res.Exhaustive = true
		c.Res.ExhaustiveNote = "all keys up to the stated length over the 11-symbol alphabet; random longer keys are sampled"
		n := c.Scale(3000, 100000)
		cases := make([]c20Case, n)
		for i := range cases {
			cases[i] = k2l.Gen(c.Rng)
		}
		RunCases(c, k2l, cases)

		// logql.IsValidLabel against the model's isValidLabel (used by the theorems' conclusion)
		type vCase struct {
			Dot bool   `json:"dot"`
			Key []byte `json:"key"`
		}
		valid := &Spec[vCase]{
			What: "KeyToLabel.isValidLabel == logql.IsValidLabel",
			Gen:  func(r *rand.Rand) vCase { return vCase{Dot: r.Intn(2) == 0, Key: k2l.Gen(r).Key[:r.Intn(6)]} },
			Req: func(t vCase) Sexp {
				d := int64(0)
				if t.Dot {
					d = 1
				}
				return L(A("validlabel"), N(d), B(string(t.Key)))
			},
			Impl: func(t vCase) Sexp {
				if logql.IsValidLabel(string(t.Key), t.Dot) == nil {
					return N(1)
				}
				return N(0)
			},
			Nontrivial: func(t vCase, _ Sexp) bool { return len(t.Key) > 0 },
		}
		var vs []vCase
		for _, k := range c20Enumerate(3) {
			vs = append(vs, vCase{false, k.Key}, vCase{true, k.Key})
			// and the sanitised image must be valid
			if san, ok := safeKeyToLabel(string(k.Key)); ok {
				vs = append(vs, vCase{false, []byte(san)})
			}
		}
		RunCases(c, valid, vs)
		RunSpec(c, valid, c.Scale(2000, 20000))

		// end-to-end selectability: {sanitised(k)="v"} selects the container carrying Docker label k=v
		sel := &Spec[c02Case]{
			What: "selectability: {KeyToLabel(k)=\"v\"} selects the container with Docker label k=v (Docker.select == Engine.Eval)",
			Gen: func(r *rand.Rand) c02Case {
				t := c02Case{Inv: c02GenInv(r, false), Start: 1700000000e9, End: 1700000100e9}
				for tries := 0; tries < 20 && len(t.Sel) == 0; tries++ {
					if len(t.Inv) == 0 {
						t.Inv = c02GenInv(r, false)
						continue
					}
					ctr := &t.Inv[r.Intn(len(t.Inv))]
					// a fresh key over the C20 alphabet, not colliding with the container's other keys
					key := ""
					for i, n := 0, 1+r.Intn(5); i < n; i++ {
						key += c20Alphabet[r.Intn(len(c20Alphabet))]
					}
					// (a panicking KeyToLabel is reported by the first correspondence; here the key is skipped)
					san, ok := safeKeyToLabel(key)
					clash := san == "" || !ok
					for _, kv := range ctr.Labels {
						if s2, ok2 := safeKeyToLabel(kv[0]); !ok2 || s2 == san {
							clash = true
						}
					}
					if clash {
						continue
					}
					v := c02Values[r.Intn(len(c02Values))]
					ctr.Labels = append(ctr.Labels, [2]string{key, v})
					t.Sel = []c02Matcher{{Label: san, Op: "eq", Value: v}}
				}
				return t
			},
			Req:    func(t c02Case) Sexp { return c02Req(t) },
			Impl:   c02Impl,
			Equal:  c02Equal,
			Shrink: c02Shrink,
			Nontrivial: func(t c02Case, impl Sexp) bool {
				return len(t.Sel) == 1 && len(impl.List) == 3 && len(impl.List[0].List) > 0
			},
			// beyond agreeing with the model, the property itself: the labelled container is selected
			PropertyFails: func(t c02Case, impl, model Sexp) bool { return true },
		}
		RunSpec(c, sel, c.Scale(1500, 40000))

		// the other half of the property: a JSON key extracted without a field list is exposed under its
		// sanitised name (LogQL.Stage.apply for `| json` uses KeyToLabel.run) and is addressable by it
		jk := &Spec[LogCase]{
			What: "JSON keys: `| json` exposes key k under KeyToLabel(k) (LogQL.Stage.apply == Engine.Eval)",
			Gen: func(r *rand.Rand) LogCase {
				key := ""
				for i, n := 0, 1+r.Intn(5); i < n; i++ {
					key += pick(r, []string{"a", "Z", "0", "9", "_", ".", "-", "/", " ", "é", "b", "http", "method"})
				}
				kb, _ := json.Marshal(key)
				t := LogCase{Stages: []LStage{{Kind: "json"}}, Limit: -1,
					Recs: []LRec{{TS: 1e9, Body: fmt.Sprintf(`{%s:"v","other":"w"}`, kb)}, {TS: 2e9, Body: fmt.Sprintf(`{%s:"u"}`, kb)}}}
				if san, ok := safeKeyToLabel(key); ok && san != "" && r.Intn(2) == 0 {
					t.Stages = append(t.Stages, LStage{Kind: "lblf", Pred: &LPred{Kind: "m", M: &LMatcher{Label: san, Op: "eq", Value: "v"}}})
				}
				return t
			},
			Req:        func(t LogCase) Sexp { return t.Req() },
			Impl:       func(t LogCase) Sexp { return logImpl(t, false) },
			Shrink:     shrinkLogCase,
			Nontrivial: func(t LogCase, impl Sexp) bool { n, _ := logResultCount(impl); return n > 0 },
		}
		RunSpec(c, jk, c.Scale(1500, 40000))

		// K3 probe: two Docker label keys of one container with the same sanitised name
		k3 := c02Case{Inv: []c02Ctr{{ID: "id0", Names: []string{"/k3"}, Labels: [][2]string{{"a.b", "1"}, {"a-b", "2"}}}},
			Start: 1700000000e9, End: 1700000100e9}
		seen := map[string]int{}
		for i := 0; i < 40; i++ {
			for _, v := range []string{"1", "2"} {
				t := k3
				t.Sel = []c02Matcher{{Label: "a_b", Op: "eq", Value: v}}
				out := c02Impl(t)
				if len(out.List) == 3 && len(out.List[0].List) == 1 {
					seen[v]++
				}
			}
		}
		c.Count(fmt.Sprintf("k3:selected-by-1=%d,by-2=%d of 40", seen["1"], seen["2"]))
		if seen["1"] != 40 || seen["2"] != 40 {
			cj, _ := json.Marshal(k3)
			c.Fail(Failure{Kind: "failing-input", Signature: "K3", What: "selectability at a sanitisation collision",
				Case: cj, Request: `{a_b="1"} and {a_b="2"} over Docker labels {"a.b":"1","a-b":"2"}, 40 runs each`,
				Impl: fmt.Sprintf("selected by a_b=1: %d/40, by a_b=2: %d/40", seen["1"], seen["2"]), Model: "C20_selectable_partial excludes this point (C20_collision_witness)"})
		}
		_ = dockerlog.NewQuerier
	}
}

// safeKeyToLabel: the generators call the function under test to build cases; a panic there must not
// take the harness down before the failing inputs found so far are written.
func safeKeyToLabel(k string) (out string, ok bool) {
	defer func() {
		if recover() != nil {
			out, ok = "", false
		}
	}()
	return otelstorage.KeyToLabel(k), true
}
