package main

import (
	"encoding/json"
	"fmt"
	"hash/fnv"
	"math/rand"
	"os"
	"path/filepath"
	"sort"
	"time"
)

// Failure is one case on which implementation and model (or the property's oracle) disagree.
type Failure struct {
	Kind      string          `json:"kind"` // "failing-input" | "no-failing-input-found"
	Signature string          `json:"signature,omitempty"`
	What      string          `json:"what"`
	Case      json.RawMessage `json:"case"`
	Request   string          `json:"request"`
	Impl      string          `json:"impl_output"`
	Model     string          `json:"model_output"`
	Original  json.RawMessage `json:"shrunk_from,omitempty"`
	Replay    string          `json:"replay,omitempty"`
}

// Result is what one harness run reports to bin/check.
type Result struct {
	Property             string         `json:"property"`
	Tier                 string         `json:"tier"`
	Seed                 int64          `json:"seed"`
	Evaluations          int            `json:"evaluations"`
	DistinctNontrivial   int            `json:"distinct_nontrivial"`
	Rule                 string         `json:"rule"`
	Samples              []string       `json:"samples"`
	Distribution         map[string]int `json:"distribution"`
	DisagreementsChecked int            `json:"disagreements_checked"`
	Exhaustive           bool           `json:"exhaustive"`
	ExhaustiveNote       string         `json:"exhaustive_note,omitempty"`
	CorpusReplayed       int            `json:"corpus_replayed"`
	Failures             []Failure      `json:"failures"`
	Notes                []string       `json:"notes,omitempty"`
	WallS                float64        `json:"wall_s"`

	nontrivial map[uint64]struct{}
}

// Ctx carries the run's shared state.
type Ctx struct {
	Prop      string
	Tier      string
	Seed      int64
	Rng       *rand.Rand
	Drv       *Driver
	Res       *Result
	VerifDir  string
	ReplayIn  string
	MaxFail   int
	failCount map[string]int
	// hangs counts implementation timeouts; after a few the run stops generating (every hang leaves a
	// spinning goroutine behind, and the violation is established)
	hangs int
}

func (c *Ctx) Thorough() bool { return c.Tier == "thorough" }

// Scale picks the case count for the tier.
func (c *Ctx) Scale(quick, thorough int) int {
	if c.Thorough() {
		return thorough
	}
	return quick
}

func (c *Ctx) Count(key string)         { c.Res.Distribution[key]++ }
func (c *Ctx) CountN(key string, n int) { c.Res.Distribution[key] += n }

func hash64(s string) uint64 {
	h := fnv.New64a()
	h.Write([]byte(s))
	return h.Sum64()
}

func (c *Ctx) MarkNontrivial(canon string) {
	c.Res.nontrivial[hash64(canon)] = struct{}{}
}

func (c *Ctx) Sample(s string) {
	if len(c.Res.Samples) < 5 {
		if len(s) > 600 {
			s = s[:600] + "…"
		}
		c.Res.Samples = append(c.Res.Samples, s)
	}
}

// Fail records a failure (bounded per signature) and writes its replay file.
func (c *Ctx) Fail(f Failure) {
	key := f.Kind + "/" + f.Signature
	c.failCount[key]++
	c.Count("failure:" + key)
	if c.failCount[key] > c.MaxFail {
		return
	}
	dir := filepath.Join(c.VerifDir, "replays", c.Prop)
	_ = os.MkdirAll(dir, 0o755)
	name := fmt.Sprintf("%s-%d-%d.json", c.Tier, c.Seed, len(c.Res.Failures))
	f.Replay = filepath.Join(dir, name)
	doc := map[string]any{
		"property": c.Prop, "seed": c.Seed, "tier": c.Tier, "kind": f.Kind, "signature": f.Signature,
		"theorem_or_correspondence": f.What, "case": f.Case, "request": f.Request,
		"impl_output": f.Impl, "model_output": f.Model, "shrunk_from": f.Original,
		"replay_cmd": fmt.Sprintf("bin/check %s --replay %s", c.Prop, f.Replay),
	}
	b, _ := json.MarshalIndent(doc, "", " ")
	_ = os.WriteFile(f.Replay, b, 0o644)
	c.Res.Failures = append(c.Res.Failures, f)
}

// guard runs f under recover and a watchdog; on panic or timeout returns a marker.
func guard(timeout time.Duration, f func() Sexp) (out Sexp) {
	done := make(chan Sexp, 1)
	go func() {
		defer func() {
			if r := recover(); r != nil {
				msg := fmt.Sprint(r)
				if len(msg) > 120 {
					msg = msg[:120]
				}
				done <- L(A("panic"), B(msg))
			}
		}()
		done <- f()
	}()
	select {
	case o := <-done:
		return o
	case <-time.After(timeout):
		return L(A("timeout"))
	}
}

// Spec describes a differential check over cases of type T.
type Spec[T any] struct {
	// What names the correspondence (goes into replay files).
	What string
	Gen  func(r *rand.Rand) T
	// Req renders the case as the request line for the Lean driver.
	Req func(T) Sexp
	// Impl runs the real code and returns the canonical output.
	Impl func(T) Sexp
	// Equal compares canonical outputs (default: textual equality).
	Equal func(t T, impl, model Sexp) bool
	// Shrink proposes smaller cases.
	Shrink func(T) []T
	// Nontrivial says whether a case counts for distinct_nontrivial.
	Nontrivial func(t T, impl Sexp) bool
	// PropertyFails decides, given a disagreement, whether the property itself fails on the
	// implementation's output (default: yes — functional properties, the model value is the spec).
	PropertyFails func(t T, impl, model Sexp) bool
	// Signature tags a failing case with a known-finding signature ("" = unknown).
	Signature func(t T, impl, model Sexp) string
	// Tags feeds the distribution counters.
	Tags func(t T, impl Sexp) []string
	// Key identifies a case for the distinct count (default: the request line).
	Key     func(t T) string
	Timeout time.Duration
}

func (s *Spec[T]) equal(t T, impl, model Sexp) bool {
	if s.Equal != nil {
		return s.Equal(t, impl, model)
	}
	// an error is an error: which wrapper text or class the implementation chose is not part of any
	// property (a refactoring may reword messages), so two error replies agree
	if impl.IsL && model.IsL && impl.Head() == "err" && model.Head() == "err" {
		return true
	}
	return impl.String() == model.String()
}

// inflight journal: the case about to be run on the implementation is written down first, so that an
// unrecoverable crash of the process (fatal error: out of memory, stack overflow, a runtime throw) still
// leaves the input that caused it; bin/check turns it into the replay of the violation.
var (
	inflightFile *os.File
	inflightProp string
)

func journal(what string, t any) {
	if inflightFile == nil {
		return
	}
	cj, err := json.Marshal(t)
	if err != nil {
		return
	}
	doc, _ := json.Marshal(map[string]any{"property": inflightProp, "kind": "failing-input",
		"theorem_or_correspondence": what, "case": json.RawMessage(cj),
		"message": "the harness process died while the implementation was running this case"})
	_, _ = inflightFile.Seek(0, 0)
	_ = inflightFile.Truncate(0)
	_, _ = inflightFile.Write(doc)
}

func (s *Spec[T]) runImpl(t T) Sexp {
	journal(s.What, t)
	to := s.Timeout
	if to == 0 {
		to = 10 * time.Second
	}
	out := guard(to, func() Sexp { return s.Impl(t) })
	if out.Head() == "timeout" {
		// a loaded machine is not a hang: once more, alone, with three times the budget
		out = guard(3*to, func() Sexp { return s.Impl(t) })
	}
	if h := out.Head(); (h == "timeout" || h == "panic") && dbgCount < 3 {
		dbgCount++
		cj, _ := json.Marshal(t)
		fmt.Fprintf(os.Stderr, "harness: implementation %s on case %s\n", out.String(), cj)
	}
	return out
}

var dbgCount int

// RunCases evaluates the given cases on both sides and handles disagreements.
func RunCases[T any](c *Ctx, s *Spec[T], cases []T) {
	const batch = 2000
	for lo := 0; lo < len(cases); lo += batch {
		hi := lo + batch
		if hi > len(cases) {
			hi = len(cases)
		}
		if c.hangs >= 3 {
			c.CountN("skipped-after-3-hangs", len(cases)-lo)
			return
		}
		chunk := cases[lo:hi]
		reqs := make([]Sexp, 0, len(chunk))
		impls := make([]Sexp, 0, len(chunk))
		for i, t := range chunk {
			reqs = append(reqs, s.Req(t))
			impls = append(impls, s.runImpl(t))
			if impls[i].Head() == "timeout" {
				c.hangs++
				if c.hangs >= 3 {
					c.CountN("skipped-after-3-hangs", len(chunk)-i-1)
					chunk = chunk[:i+1]
					break
				}
			}
		}
		models, err := c.Drv.AskBatch(reqs)
		if err != nil {
			fatal("driver failed: %v", err)
		}
		for i, t := range chunk {
			c.Res.Evaluations++
			reqStr := reqs[i].String()
			if s.Tags != nil {
				for _, tag := range s.Tags(t, impls[i]) {
					c.Count(tag)
				}
			}
			if h := impls[i].Head(); h == "panic" || h == "timeout" {
				c.Count("impl:" + h)
			}
			if s.Nontrivial == nil || s.Nontrivial(t, impls[i]) {
				if s.Key != nil {
					c.MarkNontrivial(s.Key(t))
				} else {
					c.MarkNontrivial(reqStr)
				}
			}
			if c.Res.Evaluations%997 == 1 {
				if s.Key != nil {
					c.Sample(s.Key(t) + " => " + impls[i].String())
				} else {
					c.Sample(reqStr + " => " + impls[i].String())
				}
			}
			if !s.equal(t, impls[i], models[i]) {
				c.Res.DisagreementsChecked++
				handleDisagreement(c, s, t)
			}
		}
	}
}

func handleDisagreement[T any](c *Ctx, s *Spec[T], t T) {
	orig, _ := json.Marshal(t)
	// shrink: greedy descent while the disagreement (same signature) persists
	sigOf := func(x T) (bool, string, Sexp, Sexp) {
		impl := s.runImpl(x)
		model, err := c.Drv.Ask(s.Req(x))
		if err != nil {
			fatal("driver failed: %v", err)
		}
		if s.equal(x, impl, model) {
			return false, "", impl, model
		}
		sig := ""
		if s.Signature != nil {
			sig = s.Signature(x, impl, model)
		}
		return true, sig, impl, model
	}
	_, sig0, impl, model := sigOf(t)
	cur := t
	// a case on which the property itself fails must stay one while it is minimised (shrinking away the
	// stage that turned a wrong label into a lost record would leave a mere label difference)
	pf0 := s.PropertyFails == nil || s.PropertyFails(t, impl, model)
	kind0 := "failing-input"
	if !pf0 {
		kind0 = "no-failing-input-found"
	}
	if key := kind0 + "/" + sig0; c.failCount[key] >= c.MaxFail {
		// enough replays of this kind are written: count it, do not spend the minimisation time again
		c.failCount[key]++
		c.Count("failure:" + key)
		return
	}
	if s.Shrink != nil && impl.Head() != "timeout" {
		deadline := time.Now().Add(20 * time.Second)
		for progress := true; progress && time.Now().Before(deadline); {
			progress = false
			for _, cand := range s.Shrink(cur) {
				if bad, sig, i2, m2 := sigOf(cand); bad && sig == sig0 {
					if pf0 && s.PropertyFails != nil && !s.PropertyFails(cand, i2, m2) {
						continue
					}
					cur, impl, model = cand, i2, m2
					progress = true
					break
				}
			}
		}
	}
	kind := "failing-input"
	if !pf0 {
		kind = "no-failing-input-found"
	}
	cj, _ := json.Marshal(cur)
	c.Fail(Failure{
		Kind: kind, Signature: sig0, What: s.What, Case: cj, Request: s.Req(cur).String(),
		Impl: impl.String(), Model: model.String(), Original: orig,
	})
}

// RunSpec replays the corpus, then generates n cases.
func RunSpec[T any](c *Ctx, s *Spec[T], n int) {
	if c.ReplayIn != "" {
		var doc struct {
			What string          `json:"theorem_or_correspondence"`
			Case json.RawMessage `json:"case"`
		}
		b, err := os.ReadFile(c.ReplayIn)
		if err != nil {
			fatal("replay: %v", err)
		}
		if err := json.Unmarshal(b, &doc); err != nil {
			fatal("replay: %v", err)
		}
		if doc.What != "" && doc.What != s.What {
			return // the replay belongs to another correspondence of this property
		}
		var t T
		if err := json.Unmarshal(doc.Case, &t); err != nil {
			fatal("replay case: %v", err)
		}
		RunCases(c, s, []T{t})
		return
	}
	corpus := loadCorpus[T](c, s.What)
	c.Res.CorpusReplayed += len(corpus)
	RunCases(c, s, corpus)
	cases := make([]T, n)
	for i := range cases {
		cases[i] = s.Gen(c.Rng)
	}
	RunCases(c, s, cases)
}

// loadCorpus reads corpus/<prop>/*.json whose "theorem_or_correspondence" equals what.
func loadCorpus[T any](c *Ctx, what string) []T {
	files, _ := filepath.Glob(filepath.Join(c.VerifDir, "corpus", c.Prop, "*.json"))
	sort.Strings(files)
	var out []T
	for _, f := range files {
		b, err := os.ReadFile(f)
		if err != nil {
			continue
		}
		var doc struct {
			What string          `json:"theorem_or_correspondence"`
			Case json.RawMessage `json:"case"`
		}
		if json.Unmarshal(b, &doc) != nil || doc.What != what {
			continue
		}
		var t T
		if json.Unmarshal(doc.Case, &t) == nil {
			out = append(out, t)
		}
	}
	return out
}

// extracting: inside `harness extract` a failing generator must not take the others down
var extracting bool

type extractFailure struct{ msg string }

func fatal(format string, a ...any) {
	if extracting {
		panic(extractFailure{fmt.Sprintf(format, a...)})
	}
	fmt.Fprintf(os.Stderr, "harness: "+format+"\n", a...)
	os.Exit(2)
}
