package main

import (
	"fmt"
	"math/rand"
	"strings"
)

// Re is the regex AST shared with the Lean environment model (Verif/Env/Regex.lean).
type Re struct {
	Kind   string    `json:"k"` // chr cls any eps seq alt star plus opt grp
	C      byte      `json:"c,omitempty"`
	Neg    bool      `json:"neg,omitempty"`
	Ranges [][2]byte `json:"r,omitempty"`
	Idx    int       `json:"i,omitempty"`
	Name   string    `json:"n,omitempty"` // named group
	A      *Re       `json:"a,omitempty"`
	B      *Re       `json:"b,omitempty"`
}

func (r *Re) Sexp() Sexp {
	switch r.Kind {
	case "chr":
		return L(A("chr"), N(int64(r.C)))
	case "cls":
		xs := []Sexp{A("cls"), N(b2i(r.Neg))}
		for _, rg := range r.Ranges {
			xs = append(xs, L(N(int64(rg[0])), N(int64(rg[1]))))
		}
		return LS(xs)
	case "any", "eps", "bol", "eol":
		return L(A(r.Kind))
	case "seq", "alt":
		return L(A(r.Kind), r.A.Sexp(), r.B.Sexp())
	case "star", "plus", "opt":
		return L(A(r.Kind), r.A.Sexp())
	case "grp":
		return L(A("grp"), N(int64(r.Idx)), r.A.Sexp())
	case "fold":
		// (?i:...) has no node of its own in the model: literals and classes are widened to both cases
		return foldRe(r.A).Sexp()
	}
	panic("bad re kind " + r.Kind)
}

func b2i(b bool) int64 {
	if b {
		return 1
	}
	return 0
}

func reEscape(c byte) string {
	if strings.ContainsRune(`\.+*?()|[]{}^$-/"`, rune(c)) {
		return `\` + string(c)
	}
	if c < 0x20 || c >= 0x7f {
		return fmt.Sprintf(`\x%02x`, c)
	}
	return string(c)
}

// Text renders RE2 syntax.
func (r *Re) Text() string {
	switch r.Kind {
	case "chr":
		return reEscape(r.C)
	case "cls":
		s := "["
		if r.Neg {
			s += "^"
		}
		for _, rg := range r.Ranges {
			s += reEscape(rg[0]) + "-" + reEscape(rg[1])
		}
		return s + "]"
	case "any":
		return "."
	case "bol":
		return "^"
	case "eol":
		return "$"
	case "eps":
		return "(?:)"
	case "seq":
		return "(?:" + r.A.Text() + ")(?:" + r.B.Text() + ")"
	case "alt":
		return "(?:" + r.A.Text() + "|" + r.B.Text() + ")"
	case "star":
		return "(?:" + r.A.Text() + ")*"
	case "plus":
		return "(?:" + r.A.Text() + ")+"
	case "opt":
		return "(?:" + r.A.Text() + ")?"
	case "grp":
		if r.Name != "" {
			return "(?P<" + r.Name + ">" + r.A.Text() + ")"
		}
		return "(" + r.A.Text() + ")"
	case "fold":
		if r.Neg { // the flag written in front of the whole expression
			return "(?i)" + r.A.Text()
		}
		return "(?i:" + r.A.Text() + ")"
	}
	panic("bad re kind")
}

// reLit is the regex matching exactly s.
func reLit(s string) *Re {
	if s == "" {
		return &Re{Kind: "eps"}
	}
	r := &Re{Kind: "chr", C: s[0]}
	for i := 1; i < len(s); i++ {
		r = &Re{Kind: "seq", A: r, B: &Re{Kind: "chr", C: s[i]}}
	}
	return r
}

// anchored wraps a regex in `^` and/or `$` in half of the calls
func anchored(r *rand.Rand, re *Re) *Re {
	switch r.Intn(6) {
	case 0:
		return &Re{Kind: "seq", A: &Re{Kind: "bol"}, B: re}
	case 1:
		return &Re{Kind: "seq", A: re, B: &Re{Kind: "eol"}}
	case 2:
		return &Re{Kind: "seq", A: &Re{Kind: "bol"}, B: &Re{Kind: "seq", A: re, B: &Re{Kind: "eol"}}}
	}
	return re
}

// genRe draws a regex over the given literal alphabet; groups are numbered in order of
// their opening parenthesis. names == nil: unnamed groups; otherwise group i gets names[i-1].
func genRe(r *rand.Rand, depth int, alphabet string, grp *int, allowGroups bool, names []string) *Re {
	k := r.Intn(10)
	if depth <= 0 {
		k = r.Intn(4)
	}
	switch k {
	case 0, 3:
		return &Re{Kind: "chr", C: alphabet[r.Intn(len(alphabet))]}
	case 1:
		return &Re{Kind: "any"}
	case 2:
		a, b := alphabet[r.Intn(len(alphabet))], alphabet[r.Intn(len(alphabet))]
		if a > b {
			a, b = b, a
		}
		return &Re{Kind: "cls", Neg: r.Intn(3) == 0, Ranges: [][2]byte{{a, b}}}
	case 4, 5:
		a := genRe(r, depth-1, alphabet, grp, allowGroups, names)
		b := genRe(r, depth-1, alphabet, grp, allowGroups, names)
		return &Re{Kind: "seq", A: a, B: b}
	case 6:
		a := genRe(r, depth-1, alphabet, grp, allowGroups, names)
		b := genRe(r, depth-1, alphabet, grp, allowGroups, names)
		return &Re{Kind: "alt", A: a, B: b}
	case 7:
		op := []string{"star", "plus", "opt"}[r.Intn(3)]
		g0 := *grp
		body := genRe(r, depth-1, alphabet, grp, allowGroups, names)
		if op != "opt" && body.nullable() {
			// a repetition of a body that can match the empty string: Go's capture semantics for
			// empty iterations is outside the regex environment model; make the body consume a byte
			body = &Re{Kind: "seq", A: &Re{Kind: "chr", C: alphabet[r.Intn(len(alphabet))]}, B: body}
		}
		if op != "opt" && body.branching() {
			// a repeated alternation / nested repetition makes the backtracking matcher of the regex
			// environment model exponential on lines that do not match (Go's matcher is linear): the model
			// would never answer; repeat a branch-free body instead
			body = &Re{Kind: "chr", C: alphabet[r.Intn(len(alphabet))]}
			*grp = g0 // the groups of the discarded body do not exist
		}
		return &Re{Kind: op, A: body}
	default:
		if !allowGroups || (names != nil && *grp >= len(names)) {
			return &Re{Kind: "chr", C: alphabet[r.Intn(len(alphabet))]}
		}
		*grp++
		i := *grp
		g := &Re{Kind: "grp", Idx: i}
		if names != nil {
			g.Name = names[i-1]
		}
		g.A = genRe(r, depth-1, alphabet, grp, allowGroups, names)
		return g
	}
}

// branching: contains an alternation, an optional part or a repetition
func (r *Re) branching() bool {
	switch r.Kind {
	case "alt", "star", "plus", "opt":
		return true
	case "seq":
		return r.A.branching() || r.B.branching()
	case "grp":
		return r.A.branching()
	}
	return false
}

func (r *Re) nullable() bool {
	switch r.Kind {
	case "eps", "star", "opt", "bol", "eol":
		return true
	case "seq":
		return r.A.nullable() && r.B.nullable()
	case "alt":
		return r.A.nullable() || r.B.nullable()
	case "plus", "grp":
		return r.A.nullable()
	}
	return false
}

// foldRe is the case-insensitive reading of an expression over ASCII: a letter matches both its cases,
// a class is closed under case swapping (then negated, if it is a negated class).
func foldRe(r *Re) *Re {
	swap := func(c byte) byte {
		switch {
		case c >= 'a' && c <= 'z':
			return c - 32
		case c >= 'A' && c <= 'Z':
			return c + 32
		}
		return c
	}
	switch r.Kind {
	case "chr":
		if swap(r.C) == r.C {
			return r
		}
		return &Re{Kind: "cls", Ranges: [][2]byte{{r.C, r.C}, {swap(r.C), swap(r.C)}}}
	case "cls":
		out := &Re{Kind: "cls", Neg: r.Neg, Ranges: append([][2]byte{}, r.Ranges...)}
		for _, rg := range r.Ranges {
			for c := int(rg[0]); c <= int(rg[1]); c++ {
				if s := swap(byte(c)); s != byte(c) {
					out.Ranges = append(out.Ranges, [2]byte{s, s})
				}
			}
		}
		return out
	case "seq", "alt":
		return &Re{Kind: r.Kind, A: foldRe(r.A), B: foldRe(r.B)}
	case "star", "plus", "opt":
		return &Re{Kind: r.Kind, A: foldRe(r.A)}
	case "grp":
		return &Re{Kind: "grp", Idx: r.Idx, Name: r.Name, A: foldRe(r.A)}
	case "fold":
		return foldRe(r.A)
	}
	return r
}
