namespace ReM

inductive Re
  | chr (c : UInt8)
  | cls (neg : Bool) (ranges : List (UInt8 × UInt8))
  | any                       -- `.` : any byte except '\n' (ASCII inputs only)
  | eps
  | seq (a b : Re)
  | alt (a b : Re)
  | star (r : Re)
  | plus (r : Re)
  | opt (r : Re)
  | grp (idx : Nat) (r : Re)  -- capturing group number idx (1-based)

abbrev Caps := List (Nat × Nat × Nat)   -- (group, start, end) most recent first

/-- leftmost-first backtracking matcher in continuation-passing style.
    `pos` = current offset, `s` = remaining input. Star iterations must make progress. -/
def m : Nat → Re → Nat → List UInt8 → Caps → (Nat → List UInt8 → Caps → Option Caps) → Option Caps
  | 0, _, _, _, _, _ => none
  | fuel + 1, r, pos, s, caps, k =>
    match r with
    | .chr c => match s with
      | x :: t => if x = c then k (pos + 1) t caps else none
      | [] => none
    | .cls neg rs => match s with
      | x :: t => if (rs.any fun (lo, hi) => lo ≤ x && x ≤ hi) != neg then k (pos + 1) t caps else none
      | [] => none
    | .any => match s with
      | x :: t => if x ≠ 10 then k (pos + 1) t caps else none
      | [] => none
    | .eps => k pos s caps
    | .seq a b => m fuel a pos s caps (fun p s' c => m fuel b p s' c k)
    | .alt a b => match m fuel a pos s caps k with
      | some c => some c
      | none => m fuel b pos s caps k
    | .star r1 =>
      -- greedy: try one more iteration (with progress), else continue
      match m fuel r1 pos s caps (fun p s' c => if p > pos then m fuel (.star r1) p s' c k else none) with
      | some c => some c
      | none => k pos s caps
    | .plus r1 => m fuel (.seq r1 (.star r1)) pos s caps k
    | .opt r1 => match m fuel r1 pos s caps k with
      | some c => some c
      | none => k pos s caps
    | .grp i r1 => m fuel r1 pos s caps (fun p s' c => k p s' ((i, pos, p) :: c))

def fuelFor (s : List UInt8) : Nat := 50 * (s.length + 2)

def fullMatch (r : Re) (s : List UInt8) : Bool :=
  (m (fuelFor s) r 0 s [] (fun _ s' c => if s'.isEmpty then some c else none)).isSome

/-- leftmost match from any start offset; returns (start, end, caps) -/
def searchFrom (r : Re) : Nat → List UInt8 → Nat → Option (Nat × Nat × Caps)
  | 0, _, _ => none
  | n + 1, s, pos =>
    match m (fuelFor s) r pos s [] (fun p _ c => some ((0, pos, p) :: c)) with
    | some c => match c.find? (·.1 == 0) with
      | some (_, a, b) => some (a, b, c)
      | none => none
    | none => match s with
      | [] => none
      | _ :: t => searchFrom r n t (pos + 1)

def search (r : Re) (s : List UInt8) : Bool := (searchFrom r (s.length + 1) s 0).isSome

/-- FindStringSubmatchIndex for groups 0..n -/
def submatch (r : Re) (n : Nat) (s : List UInt8) : Option (List (Option (Nat × Nat))) :=
  match searchFrom r (s.length + 1) s 0 with
  | none => none
  | some (a, b, caps) =>
    some ((some (a, b)) :: (List.range n).map fun i => (caps.find? (·.1 == i + 1)).map (fun x => (x.2.1, x.2.2)))

end ReM
