import random, sys
rnd = random.Random(int(sys.argv[1]) if len(sys.argv)>1 else 1)
ALPH = "abc01 -\n"
def gen(d, grp):
    k = rnd.randint(0, 9) if d > 0 else rnd.randint(0, 3)
    if k == 0:
        c = rnd.choice("abc01 -")
        esc = c if c not in "-" else "\\-"
        return (f".chr {ord(c)}", esc if c != ' ' else ' ')
    if k == 1:
        return (".any", ".")
    if k == 2:
        neg = rnd.random() < 0.3
        rs = []
        txt = ""
        for _ in range(rnd.randint(1,2)):
            lo, hi = sorted(rnd.sample("abc012", 2))
            rs.append(f"({ord(lo)}, {ord(hi)})")
            txt += f"{lo}-{hi}"
        return (f".cls {'true' if neg else 'false'} [{', '.join(rs)}]", "[" + ("^" if neg else "") + txt + "]")
    if k == 3:
        c = rnd.choice("ab")
        return (f".chr {ord(c)}", c)
    if k in (4, 5):
        a, b = gen(d-1, grp), gen(d-1, grp)
        return (f".seq ({a[0]}) ({b[0]})", f"(?:{a[1]})(?:{b[1]})")
    if k == 6:
        a, b = gen(d-1, grp), gen(d-1, grp)
        return (f".alt ({a[0]}) ({b[0]})", f"(?:{a[1]}|{b[1]})")
    if k == 7:
        a = gen(d-1, grp)
        op = rnd.choice(["star", "plus", "opt"])
        return (f".{op} ({a[0]})", f"(?:{a[1]})" + {"star":"*","plus":"+","opt":"?"}[op])
    if k >= 8:
        grp[0] += 1
        i = grp[0]
        a = gen(d-1, grp)
        return (f".grp {i} ({a[0]})", f"({a[1]})")
cases = []
for i in range(int(sys.argv[2]) if len(sys.argv)>2 else 400):
    grp=[0]
    lean, go = gen(3, grp)
    s = "".join(rnd.choice(ALPH) for _ in range(rnd.randint(0, 7)))
    cases.append((lean, go, s, grp[0]))
with open("Cases.lean","w") as f:
    f.write("import Re\nopen ReM\ndef cases : List (Re × Nat × List UInt8) := [\n")
    f.write(",\n".join(f"  ({l}, {n}, [{', '.join(str(ord(c)) for c in s)}])" for (l,g,s,n) in cases))
    f.write("\n]\n\ndef show1 (o : Option (List (Option (Nat × Nat)))) : String :=\n  match o with\n  | none => \"nil\"\n  | some l => \" \".intercalate (l.map fun x => match x with | none => \"-1 -1\" | some (a,b) => s!\"{a} {b}\")\n")
    f.write("def main : IO Unit := do\n  for (r, n, s) in cases do\n    IO.println s!\"{fullMatch r s} {search r s} {show1 (submatch r n s)}\"\n")
with open("cases.txt","w") as f:
    for (l,g,s,n) in cases:
        f.write(g.encode().hex()+" "+s.encode().hex()+"\n")
