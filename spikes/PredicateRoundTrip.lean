/-! C05 spike: the label-predicate production (recursive, with look-ahead and a follow-set condition). -/
namespace Pred

inductive Tok
  | ident (s : String) | str (s : String) | num (s : String)
  | eq | neq | re | nre | cmpEq | gt | ge | lt | le
  | and | or | comma | lp | rp | pipe
deriving DecidableEq, Repr

inductive SOp | eq | neq | re | nre deriving DecidableEq, Repr
inductive COp | eq | neq | gt | ge | lt | le deriving DecidableEq, Repr
inductive LOp | and | or deriving DecidableEq, Repr

inductive P
  | m (l : String) (op : SOp) (v : String)
  | n (l : String) (op : COp) (v : String)
  | paren (p : P)
  | bin (a : P) (op : LOp) (b : P)
deriving DecidableEq, Repr

def sop : Tok → Option SOp
  | .eq => some .eq | .neq => some .neq | .re => some .re | .nre => some .nre | _ => none
def cop : Tok → Option COp
  | .cmpEq => some .eq | .neq => some .neq | .gt => some .gt | .ge => some .ge | .lt => some .lt | .le => some .le
  | _ => none

def SOp.tok : SOp → Tok | .eq => .eq | .neq => .neq | .re => .re | .nre => .nre
def COp.tok : COp → Tok | .eq => .cmpEq | .neq => .neq | .gt => .gt | .ge => .ge | .lt => .lt | .le => .le
def LOp.tok : LOp → Tok | .and => .and | .or => .or

/-- the tail of parseLabelPredicate: decide whether the predicate continues -/
def cont (recur : List Tok → Option (P × List Tok)) (pred : P) (rest : List Tok) : Option (P × List Tok) :=
  match rest with
  | .ident s :: rest' =>                       -- juxtaposition: implicit `and`, token is not consumed
    match recur (.ident s :: rest') with
    | some (r, rest'') => some (.bin pred .and r, rest'')
    | none => none
  | .comma :: rest' | .and :: rest' =>
    match recur rest' with
    | some (r, rest'') => some (.bin pred .and r, rest'')
    | none => none
  | .or :: rest' =>
    match recur rest' with
    | some (r, rest'') => some (.bin pred .or r, rest'')
    | none => none
  | _ => some (pred, rest)

/-- the head of parseLabelPredicate: a parenthesised predicate or one comparison -/
def unary (recur : List Tok → Option (P × List Tok)) (toks : List Tok) : Option (P × List Tok) :=
  match toks with
  | .lp :: rest =>
    match recur rest with
    | some (p, .rp :: rest') => some (.paren p, rest')
    | _ => none
  | .ident l :: o :: .str v :: rest => (sop o).map fun op => (.m l op v, rest)
  | .ident l :: o :: .num v :: rest => (cop o).map fun op => (.n l op v, rest)
  | _ => none

/-- mirrors parseLabelPredicate (flat, right-recursive; `,` and juxtaposition mean `and`) -/
def parse : Nat → List Tok → Option (P × List Tok)
  | 0, _ => none
  | fuel + 1, toks =>
    match unary (parse fuel) toks with
    | none => none
    | some (pred, rest) => cont (parse fuel) pred rest

def render : P → List Tok
  | .m l op v => [.ident l, op.tok, .str v]
  | .n l op v => [.ident l, op.tok, .num v]
  | .paren p => .lp :: render p ++ [.rp]
  | .bin a op b => render a ++ op.tok :: render b

def size : P → Nat
  | .m .. => 1 | .n .. => 1 | .paren p => size p + 1 | .bin a _ b => size a + size b + 1

/-- normal form of what the parser returns: the left operand of a binary node is never a bare binary node -/
def NF : P → Prop
  | .m .. => True | .n .. => True
  | .paren p => NF p
  | .bin a _ b => (∀ x o y, a ≠ .bin x o y) ∧ NF a ∧ NF b

/-- the token after a predicate must not continue it -/
def Follow : List Tok → Prop
  | [] => True
  | t :: _ => (∀ s, t ≠ .ident s) ∧ t ≠ .comma ∧ t ≠ .and ∧ t ≠ .or

theorem sop_tok (o : SOp) : sop o.tok = some o := by cases o <;> rfl
theorem cop_tok (o : COp) : cop o.tok = some o := by cases o <;> rfl

theorem follow_rp (rest : List Tok) : Follow (.rp :: rest) := by simp [Follow]

/-- after a unary predicate whose continuation does not start a new operand, the parser stops -/
theorem cont_follow (recur : List Tok → Option (P × List Tok)) (pred : P) {rest : List Tok} (h : Follow rest) :
    cont recur pred rest = some (pred, rest) := by
  cases rest with
  | nil => rfl
  | cons t ts =>
    obtain ⟨h1, h2, h3, h4⟩ := h
    cases t with
    | ident s => exact absurd rfl (h1 s)
    | comma => exact absurd rfl h2
    | and => exact absurd rfl h3
    | or => exact absurd rfl h4
    | _ => rfl

theorem cont_op (recur : List Tok → Option (P × List Tok)) (pred : P) (op : LOp) (rest : List Tok) :
    cont recur pred (op.tok :: rest) =
      match recur rest with
      | some (r, rest'') => some (.bin pred op r, rest'')
      | none => none := by
  cases op <;> rfl

/-- a non-binary predicate is read back by `unary` -/
theorem unary_render (recur : List Tok → Option (P × List Tok)) (p : P) (rest : List Tok)
    (hnb : ∀ x o y, p ≠ .bin x o y)
    (hrec : ∀ q, p = .paren q → recur (render q ++ .rp :: rest) = some (q, .rp :: rest)) :
    unary recur (render p ++ rest) = some (p, rest) := by
  cases p with
  | m l op v => simp [render, unary, sop_tok]
  | n l op v => simp [render, unary, cop_tok]
  | paren q =>
    have := hrec q rfl
    simp only [render, List.cons_append, List.append_assoc, List.nil_append, unary, this]
  | bin a o b => exact absurd rfl (hnb a o b)

theorem parse_render : ∀ (fuel : Nat) (p : P) (rest : List Tok), NF p → Follow rest → size p ≤ fuel →
    parse fuel (render p ++ rest) = some (p, rest) := by
  intro fuel
  induction fuel with
  | zero => intro p rest _ _ hs; cases p <;> simp [size] at hs
  | succ f ih =>
    intro p rest hn hf hs
    -- every parenthesised sub-predicate met by `unary` is handled by the induction hypothesis
    have hparen : ∀ (q : P) (rest' : List Tok), NF q → size q ≤ f →
        parse f (render q ++ .rp :: rest') = some (q, .rp :: rest') :=
      fun q rest' hq hsq => ih q (.rp :: rest') hq (follow_rp rest') hsq
    cases p with
    | m l op v =>
      rw [parse, unary_render _ _ _ (by intro x o y h; cases h) (by intro q h; cases h)]
      exact cont_follow _ _ hf
    | n l op v =>
      rw [parse, unary_render _ _ _ (by intro x o y h; cases h) (by intro q h; cases h)]
      exact cont_follow _ _ hf
    | paren q =>
      rw [parse, unary_render _ _ _ (by intro x o y h; cases h)
        (by intro q' h; cases h; exact hparen q rest hn (by simp [size] at hs; omega))]
      exact cont_follow _ _ hf
    | bin a op b =>
      obtain ⟨hnb, hna, hnbb⟩ := hn
      have hsz : size a ≤ f ∧ size b ≤ f := by simp [size] at hs; omega
      have hun : unary (parse f) (render a ++ (op.tok :: render b ++ rest)) =
          some (a, op.tok :: render b ++ rest) := by
        apply unary_render _ _ _ hnb
        intro q hq
        subst hq
        exact hparen q _ hna (by simp [size] at hsz; omega)
      rw [parse]
      simp only [render, List.append_assoc, List.cons_append] at hun ⊢
      rw [hun]
      simp only [cont_op, ih b rest hnbb hf hsz.2]

end Pred
