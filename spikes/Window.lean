namespace Win

structure Smp (α : Type) where
  ts : Int
  val : α

variable {α : Type}

/-- fillWindow: admit samples up to `we`, skip those before `ws`, stop (buffer) at the first later one. -/
def fill (ws we : Int) : List (Smp α) → List (Smp α) → List (Smp α) × List (Smp α)
  | w, [] => (w, [])
  | w, e :: rest =>
    if e.ts > we then (w, e :: rest)
    else if e.ts < ws then fill ws we w rest
    else fill ws we (w ++ [e]) rest

/-- clearWindow (repaired): evict points strictly before the window start. -/
def clear (ws : Int) (w : List (Smp α)) : List (Smp α) := w.filter (fun p => !(decide (p.ts < ws)))

structure St (α : Type) where
  window : List (Smp α)
  pending : List (Smp α)

def step (r T : Int) (st : St α) : St α :=
  let w1 := clear (T - r) st.window
  let (w2, p2) := fill (T - r) T w1 st.pending
  ⟨w2, p2⟩

def run (r : Int) : List Int → St α → List (Int × List (Smp α))
  | [], _ => []
  | T :: grid, st => let st' := step r T st; (T, st'.window) :: run r grid st'

def inWin (r T : Int) (s : Smp α) : Bool := decide (T - r ≤ s.ts) && decide (s.ts ≤ T)

def specAt (r T : Int) (samples : List (Smp α)) : List (Smp α) := samples.filter (inWin r T)

def SortedTs (l : List (Smp α)) : Prop := l.Pairwise (fun a b => a.ts ≤ b.ts)

/-- invariant after evaluating time T -/
structure Inv (r T : Int) (samples : List (Smp α)) (st : St α) : Prop where
  split : ∃ consumed, samples = consumed ++ st.pending ∧
            st.window = consumed.filter (fun s => decide (T - r ≤ s.ts)) ∧
            (∀ s ∈ consumed, s.ts ≤ T)
  later : ∀ s ∈ st.pending, T < s.ts

theorem fill_spec (ws we : Int) (w pend : List (Smp α)) (hs : SortedTs pend) :
    ∃ taken rest, pend = taken ++ rest ∧ (∀ s ∈ taken, s.ts ≤ we) ∧ (∀ s ∈ rest, we < s.ts) ∧
      fill ws we w pend = (w ++ taken.filter (fun s => decide (ws ≤ s.ts)), rest) := by
  induction pend generalizing w with
  | nil => exact ⟨[], [], by simp [fill]⟩
  | cons e rest ih =>
    have hs' : SortedTs rest := (List.pairwise_cons.mp hs).2
    have hle : ∀ s ∈ rest, e.ts ≤ s.ts := (List.pairwise_cons.mp hs).1
    unfold fill
    by_cases h1 : e.ts > we
    · refine ⟨[], e :: rest, by simp, by simp, ?_, by simp [h1]⟩
      intro s hsm
      rcases List.mem_cons.mp hsm with h | h
      · subst h; omega
      · have := hle s h; omega
    · simp only [h1, ↓reduceIte]
      by_cases h2 : e.ts < ws
      · simp only [h2, ↓reduceIte]
        obtain ⟨tk, rs, hp, ht, hr, hf⟩ := ih w hs'
        refine ⟨e :: tk, rs, by simp [hp], ?_, hr, ?_⟩
        · intro s hsm
          rcases List.mem_cons.mp hsm with h | h
          · subst h; omega
          · exact ht s h
        · rw [hf]
          have : ¬ ws ≤ e.ts := by omega
          simp [List.filter_cons, this]
      · simp only [h2, ↓reduceIte]
        obtain ⟨tk, rs, hp, ht, hr, hf⟩ := ih (w ++ [e]) hs'
        refine ⟨e :: tk, rs, by simp [hp], ?_, hr, ?_⟩
        · intro s hsm
          rcases List.mem_cons.mp hsm with h | h
          · subst h; omega
          · exact ht s h
        · rw [hf]
          have : ws ≤ e.ts := by omega
          simp [List.filter_cons, this]

theorem step_inv (r T T' : Int) (hr : 0 ≤ r) (hT : T ≤ T') (samples : List (Smp α))
    (hs : SortedTs samples) (st : St α) (h : Inv r T samples st) : Inv r T' samples (step r T' st) := by
  obtain ⟨⟨consumed, hsplit, hwin, hcons⟩, hlater⟩ := h
  have hsp : SortedTs st.pending := by
    rw [hsplit] at hs; exact (List.pairwise_append.mp hs).2.1
  obtain ⟨tk, rs, hp, ht, hrest, hf⟩ := fill_spec (T' - r) T' (clear (T' - r) st.window) st.pending hsp
  have hstep : step r T' st = ⟨clear (T' - r) st.window ++ tk.filter (fun s => decide (T' - r ≤ s.ts)), rs⟩ := by
    simp [step, hf]
  rw [hstep]
  refine ⟨⟨consumed ++ tk, ?_, ?_, ?_⟩, ?_⟩
  · simp [hsplit, hp]
  · simp only [clear, hwin, List.filter_filter, List.filter_append]
    congr 1
    apply List.filter_congr
    intro s hsm
    have := hcons s hsm
    by_cases h1 : T' - r ≤ s.ts <;> by_cases h2 : T - r ≤ s.ts <;> simp [h1, h2] <;> omega
  · intro s hsm
    rcases List.mem_append.mp hsm with h | h
    · have := hcons s h; omega
    · exact ht s h
  · exact hrest

theorem inv_output (r T : Int) (samples : List (Smp α)) (st : St α) (h : Inv r T samples st) :
    st.window = specAt r T samples := by
  obtain ⟨⟨consumed, hsplit, hwin, hcons⟩, hlater⟩ := h
  rw [hwin, specAt, hsplit, List.filter_append]
  have h2 : st.pending.filter (inWin r T) = [] := by
    apply List.filter_eq_nil_iff.mpr
    intro s hsm; have := hlater s hsm; simp [inWin]; omega
  rw [h2, List.append_nil]
  apply List.filter_congr
  intro s hsm; have := hcons s hsm; simp [inWin, this]


/-- the fresh iterator satisfies the invariant for any time that precedes every sample -/
theorem inv_fresh (r T0 : Int) (samples : List (Smp α)) (h0 : ∀ s ∈ samples, T0 < s.ts) :
    Inv r T0 samples ⟨[], samples⟩ :=
  ⟨⟨[], by simp, by simp, by simp⟩, h0⟩

theorem run_from_inv (r : Int) (hr : 0 ≤ r) (samples : List (Smp α)) (hs : SortedTs samples) :
    ∀ (grid : List Int) (T : Int) (st : St α), Inv r T samples st → (∀ T' ∈ grid, T ≤ T') →
      grid.Pairwise (· ≤ ·) → run r grid st = grid.map (fun T' => (T', specAt r T' samples)) := by
  intro grid
  induction grid with
  | nil => intros; rfl
  | cons T' grid ih =>
    intro T st hinv hle hpw
    have hinv' := step_inv r T T' hr (hle T' (by simp)) samples hs st hinv
    simp only [run, List.map_cons]
    rw [inv_output r T' samples _ hinv']
    congr 1
    exact ih T' _ hinv' (List.pairwise_cons.mp hpw).1 (List.pairwise_cons.mp hpw).2

/-- C09: for time-sorted samples and a non-decreasing grid, the sliding-window iterator reports at every grid
    time exactly the samples of the closed window `[T - r, T]`. -/
theorem run_spec (r : Int) (hr : 0 ≤ r) (samples : List (Smp α)) (hs : SortedTs samples)
    (grid : List Int) (hpw : grid.Pairwise (· ≤ ·)) :
    run r grid ⟨[], samples⟩ = grid.map (fun T => (T, specAt r T samples)) := by
  -- a time before every sample and every grid point
  let lo : Int := (samples.map (·.ts) ++ grid).foldl min 0 - 1
  have hlo : ∀ x ∈ samples.map (·.ts) ++ grid, lo < x := by
    have key : ∀ (l : List Int) (a : Int), l.foldl min a ≤ a ∧ ∀ x ∈ l, l.foldl min a ≤ x := by
      intro l
      induction l with
      | nil => intro a; simp
      | cons y l ih =>
        intro a
        have h1 := ih (min a y)
        simp only [List.foldl_cons]
        refine ⟨by have := h1.1; omega, ?_⟩
        intro x hx
        rcases List.mem_cons.mp hx with rfl | hx
        · have := h1.1; omega
        · exact h1.2 x hx
    intro x hx
    have := (key _ 0).2 x hx
    show (samples.map (·.ts) ++ grid).foldl min 0 - 1 < x
    omega
  apply run_from_inv r hr samples hs grid lo ⟨[], samples⟩
  · exact inv_fresh r lo samples (fun s hsm => hlo s.ts (by simp; exact Or.inl ⟨s, hsm, rfl⟩))
  · intro T' hT'
    have := hlo T' (by simp [hT'])
    omega
  · exact hpw

end Win
