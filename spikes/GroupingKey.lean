/-! C10 spike: the grouping key is a function of the label *set*: order-independent and injective (modulo the hash). -/
namespace Key

abbrev Bytes := List UInt8

/-- bytewise lexicographic ≤ (Go's strings.Compare ≤ 0) -/
def leB : Bytes → Bytes → Bool
  | [], _ => true
  | _ :: _, [] => false
  | a :: as, b :: bs => if a < b then true else if b < a then false else leB as bs

theorem leB_total (x y : Bytes) : (leB x y || leB y x) = true := by
  induction x generalizing y with
  | nil => simp [leB]
  | cons a as ih =>
    cases y with
    | nil => simp [leB]
    | cons b bs =>
      simp only [leB]
      by_cases h1 : a < b
      · simp [h1]
      · by_cases h2 : b < a
        · simp [h1, h2]
        · simpa [h1, h2] using ih bs

theorem leB_antisymm (x y : Bytes) (h1 : leB x y = true) (h2 : leB y x = true) : x = y := by
  induction x generalizing y with
  | nil => cases y with
    | nil => rfl
    | cons b bs => simp [leB] at h2
  | cons a as ih =>
    cases y with
    | nil => simp [leB] at h1
    | cons b bs =>
      simp only [leB] at h1 h2
      by_cases hab : a < b
      · have : ¬ b < a := by intro h; exact absurd (UInt8.lt_trans hab h) (UInt8.lt_irrefl a)
        simp [hab, this] at h2
      · by_cases hba : b < a
        · simp [hab, hba] at h1
        · simp only [hab, hba, ↓reduceIte] at h1 h2
          have : a = b := by
            have h3 : ¬ a.toNat < b.toNat := hab
            have h4 : ¬ b.toNat < a.toNat := hba
            exact UInt8.toNat_inj.mp (by omega)
          rw [this, ih bs h1 h2]

theorem leB_trans (x y z : Bytes) (h1 : leB x y = true) (h2 : leB y z = true) : leB x z = true := by
  induction x generalizing y z with
  | nil => simp [leB]
  | cons a as ih =>
    cases y with
    | nil => simp [leB] at h1
    | cons b bs =>
      cases z with
      | nil => simp [leB] at h2
      | cons c cs =>
        simp only [leB] at h1 h2 ⊢
        have ta : ∀ {p q : UInt8}, (p < q) ↔ p.toNat < q.toNat := Iff.rfl
        by_cases hab : a < b <;> by_cases hba : b < a <;> by_cases hbc : b < c <;> by_cases hcb : c < b <;>
          by_cases hac : a < c <;> by_cases hca : c < a <;>
          simp_all only [↓reduceIte, Bool.false_eq_true, ta] <;> try omega
        -- remaining case: a = b = c bytewise, recurse
        exact ih bs cs h1 h2

structure Entry where
  name : Bytes
  value : Bytes
deriving DecidableEq

def leE (a b : Entry) : Bool := leB a.name b.name

/-- what newAggregatedLabels (repaired) does: sort the materialised entries by name -/
def canon (es : List Entry) : List Entry := es.mergeSort leE

def le64 (n : Nat) : Bytes := (List.range 8).map fun i => UInt8.ofNat (n / 256 ^ i % 256)

def enc (s : Bytes) : Bytes := le64 s.length ++ s

/-- what Key() (repaired) feeds to the hash -/
def encode (es : List Entry) : Bytes := es.flatMap fun e => enc e.name ++ enc e.value

variable (hash : Bytes → UInt64)

def key (es : List Entry) : UInt64 := hash (encode (canon es))

def DistinctNames (es : List Entry) : Prop := es.Pairwise (fun a b => a.name ≠ b.name)

/-- C10 (order independence): the key does not depend on the order in which the runtime materialised the label map. -/
theorem key_perm {a b : List Entry} (hd : DistinctNames a) (h : a.Perm b) : key hash a = key hash b := by
  unfold key
  congr 1; congr 1
  unfold canon
  have pa := List.mergeSort_perm a leE
  have pb := List.mergeSort_perm b leE
  have tr : ∀ x y z : Entry, leE x y = true → leE y z = true → leE x z = true :=
    fun x y z => leB_trans _ _ _
  have tot : ∀ x y : Entry, (leE x y || leE y x) = true := fun x y => leB_total _ _
  have sa := List.pairwise_mergeSort (le := leE) tr tot a
  have sb := List.pairwise_mergeSort (le := leE) tr tot b
  refine List.Perm.eq_of_pairwise (le := fun x y => leE x y = true) ?_ sa sb (pa.trans (h.trans pb.symm))
  intro x y hx hy hxy hyx
  have hn : x.name = y.name := leB_antisymm _ _ hxy hyx
  have hxa : x ∈ a := (List.mergeSort_perm a leE).mem_iff.mp hx
  have hya : y ∈ a := h.mem_iff.mpr ((List.mergeSort_perm b leE).mem_iff.mp hy)
  -- distinct names inside `a`: two members with equal names are the same member
  by_cases hxy' : x = y
  · exact hxy'
  · exfalso
    rcases List.mem_iff_append.mp hxa with ⟨l1, l2, rfl⟩
    simp only [List.mem_append, List.mem_cons] at hya
    have hd' := hd
    simp only [DistinctNames, List.pairwise_append, List.pairwise_cons] at hd'
    rcases hya with hy1 | hy2 | hy3
    · exact (hd'.2.2 y hy1 x (by simp)) hn.symm
    · exact hxy' hy2.symm
    · exact (hd'.2.1.1 y hy3) hn

theorem le64_length (n : Nat) : (le64 n).length = 8 := by simp [le64]

theorem le64_inj (n m : Nat) (hn : n < 2 ^ 64) (hm : m < 2 ^ 64) (h : le64 n = le64 m) : n = m := by
  simp only [le64, List.range, List.range.loop, List.map_cons, List.map_nil, List.cons.injEq, and_true] at h
  obtain ⟨h0, h1, h2, h3, h4, h5, h6, h7⟩ := h
  have e : ∀ {x y : Nat}, UInt8.ofNat (x % 256) = UInt8.ofNat (y % 256) → x % 256 = y % 256 := by
    intro x y hxy
    have := congrArg UInt8.toNat hxy
    simpa [UInt8.toNat_ofNat'] using this
  have := e h0; have := e h1; have := e h2; have := e h3; have := e h4; have := e h5; have := e h6; have := e h7
  simp only [Nat.pow_zero, Nat.div_one] at *
  omega

theorem enc_cancel (s t r1 r2 : Bytes) (hs : s.length < 2 ^ 64) (ht : t.length < 2 ^ 64)
    (h : enc s ++ r1 = enc t ++ r2) : s = t ∧ r1 = r2 := by
  simp only [enc, List.append_assoc] at h
  have h8 := List.append_inj h (by simp [le64_length])
  have hl : s.length = t.length := le64_inj _ _ hs ht h8.1
  have := List.append_inj h8.2 hl
  exact this

def Small (es : List Entry) : Prop := ∀ e ∈ es, e.name.length < 2 ^ 64 ∧ e.value.length < 2 ^ 64

/-- C10 (injectivity of what is hashed): different canonical entry lists give different byte strings. -/
theorem encode_inj (a b : List Entry) (ha : Small a) (hb : Small b) (h : encode a = encode b) : a = b := by
  induction a generalizing b with
  | nil =>
    cases b with
    | nil => rfl
    | cons y ys =>
      simp only [encode, List.flatMap_nil, List.flatMap_cons, enc, List.append_assoc] at h
      have := congrArg List.length h
      simp [le64_length] at this
      omega
  | cons x xs ih =>
    cases b with
    | nil =>
      simp only [encode, List.flatMap_nil, List.flatMap_cons, enc, List.append_assoc] at h
      have := congrArg List.length h
      simp [le64_length] at this
    | cons y ys =>
      simp only [encode, List.flatMap_cons, List.append_assoc] at h
      have hx := ha x (by simp); have hy := hb y (by simp)
      obtain ⟨hn, h'⟩ := enc_cancel _ _ _ _ hx.1 hy.1 h
      obtain ⟨hv, h''⟩ := enc_cancel _ _ _ _ hx.2 hy.2 h'
      have := ih ys (fun e he => ha e (by simp [he])) (fun e he => hb e (by simp [he])) h''
      cases x; cases y; simp_all

/-- concatenation ambiguity of the *unrepaired* encoding, as a witness -/
def encodeOld (es : List Entry) : Bytes := es.flatMap fun e => e.name ++ e.value
example : encodeOld [⟨[97], [98, 99]⟩] = encodeOld [⟨[97, 98], [99]⟩] := by decide
example : encode [⟨[97], [98, 99]⟩] ≠ encode [⟨[97, 98], [99]⟩] := by decide

end Key
