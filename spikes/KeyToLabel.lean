/-! C20 spike: KeyToLabel over decoded runes (Nat code points); output as code points too. -/
namespace K2L

-- runes are code points (Nat)

def isDigit (r : Nat) : Bool := 48 ≤ r && r ≤ 57
def isAlpha (r : Nat) : Bool := (97 ≤ r && r ≤ 122) || (65 ≤ r && r ≤ 90)
def isIdent (r : Nat) : Bool := r == 95 || isDigit r || isAlpha r
def isIdentStart (r : Nat) : Bool := r == 95 || isAlpha r

def repl (r : Nat) : Nat := if isIdent r then r else 95

/-- the `slow:` loop -/
def slow (key : List Nat) : List Nat := key.map repl

/-- the fast loop: scans while runes are valid; `seen` is key[:i] (reversed accumulation avoided: we keep a prefix list) -/
def fast (first : Bool) (pre : List Nat) : List Nat → List Nat
  | [] => pre
  | r :: rest =>
    if isDigit r then
      if first then 95 :: slow (r :: rest)      -- label.WriteString("_"); goto slow (key unchanged)
      else fast false (pre ++ [r]) rest
    else if r == 95 || isAlpha r then fast false (pre ++ [r]) rest
    else pre ++ slow (r :: rest)                 -- label.WriteString(key[:i]); key = key[i:]; goto slow

def run (key : List Nat) : List Nat := fast true [] key

def spec (key : List Nat) : List Nat :=
  match key with
  | [] => []
  | r :: _ => (if isDigit r then [95] else []) ++ key.map repl

def Valid (l : List Nat) : Prop :=
  match l with
  | [] => False
  | r :: rest => isIdentStart r = true ∧ ∀ x ∈ rest, isIdent x = true

theorem repl_ident (r : Nat) : isIdent (repl r) = true := by
  unfold repl; split
  · assumption
  · decide

theorem repl_id {r : Nat} (h : isIdent r = true) : repl r = r := by simp [repl, h]

theorem slow_ident (k : List Nat) : ∀ x ∈ slow k, isIdent x = true := by
  intro x hx; simp only [slow, List.mem_map] at hx
  obtain ⟨a, _, rfl⟩ := hx; exact repl_ident a

theorem slow_id {k : List Nat} (h : ∀ x ∈ k, isIdent x = true) : slow k = k := by
  induction k with
  | nil => rfl
  | cons a k ih =>
    simp only [slow, List.map_cons] at *
    rw [repl_id (h a (by simp)), ih (fun x hx => h x (by simp [hx]))]

/-- the fast path keeps the already scanned valid prefix and sanitises the rest -/
theorem fast_nonfirst (pre k : List Nat) : fast false pre k = pre ++ slow k := by
  induction k generalizing pre with
  | nil => simp [fast, slow]
  | cons r rest ih =>
    unfold fast
    by_cases hd : isDigit r = true
    · simp only [hd, ↓reduceIte, Bool.false_eq_true]
      rw [ih]; simp [slow, repl, isIdent, hd]
    · simp only [hd, Bool.false_eq_true, ↓reduceIte]
      by_cases ha : (r == 95 || isAlpha r) = true
      · simp only [ha, ↓reduceIte]
        rw [ih]
        have : isIdent r = true := by
          simp only [isIdent, Bool.or_eq_true] at *
          rcases ha with h | h
          · exact Or.inl (Or.inl h)
          · exact Or.inr h
        simp [slow, repl, this]
      · simp only [ha, Bool.false_eq_true, ↓reduceIte]

theorem run_eq_spec (k : List Nat) : run k = spec k := by
  cases k with
  | nil => rfl
  | cons r rest =>
    unfold run fast spec
    by_cases hd : isDigit r = true
    · simp [hd, slow]
    · simp only [hd, Bool.false_eq_true, ↓reduceIte, List.nil_append]
      by_cases ha : (r == 95 || isAlpha r) = true
      · simp only [ha, ↓reduceIte]
        rw [fast_nonfirst]
        have : isIdent r = true := by
          simp only [isIdent, Bool.or_eq_true] at *
          rcases ha with h | h
          · exact Or.inl (Or.inl h)
          · exact Or.inr h
        simp [slow, repl, this]
      · simp [ha, slow]

theorem digit_not_start {r : Nat} (h : isDigit r = true) : isIdentStart r = false := by
  simp only [isDigit, Bool.and_eq_true, decide_eq_true_eq] at h
  have h1 : (r == 95) = false := by simp; omega
  have h2 : isAlpha r = false := by
    simp only [isAlpha, Bool.or_eq_false_iff, Bool.and_eq_false_iff, decide_eq_false_iff_not]
    omega
  simp [isIdentStart, h1, h2]

theorem start_of_ident_nondigit {r : Nat} (h : isIdent r = true) (hd : isDigit r = false) : isIdentStart r = true := by
  simp only [isIdent, isIdentStart, Bool.or_eq_true] at *
  rcases h with (h | h) | h
  · exact Or.inl h
  · simp [h] at hd
  · exact Or.inr h

/-- C20: every non-empty key is mapped to a valid label name. -/
theorem valid (k : List Nat) (hk : k ≠ []) : Valid (run k) := by
  rw [run_eq_spec]
  cases k with
  | nil => exact absurd rfl hk
  | cons r rest =>
    unfold spec
    by_cases hd : isDigit r = true
    · simp only [hd, ↓reduceIte, List.singleton_append, Valid]
      exact ⟨by decide, fun x hx => slow_ident (r :: rest) x hx⟩
    · simp only [hd, Bool.false_eq_true, ↓reduceIte, List.nil_append, List.map_cons, Valid]
      refine ⟨?_, fun x hx => ?_⟩
      · by_cases hi : isIdent r = true
        · rw [repl_id hi]; exact start_of_ident_nondigit hi (by simpa using hd)
        · simp [repl, hi]; decide
      · simp only [List.mem_map] at hx; obtain ⟨a, _, rfl⟩ := hx; exact repl_ident a

/-- names that are already valid are unchanged -/
theorem id_on_valid (k : List Nat) (h : Valid k) : run k = k := by
  rw [run_eq_spec]
  cases k with
  | nil => exact absurd h (by simp [Valid])
  | cons r rest =>
    obtain ⟨hs, hr⟩ := h
    have hnd : isDigit r = false := by
      cases hd : isDigit r with
      | false => rfl
      | true => rw [digit_not_start hd] at hs; exact absurd hs (by decide)
    have hi : isIdent r = true := by
      simp only [isIdent, isIdentStart, Bool.or_eq_true] at *
      rcases hs with h | h
      · exact Or.inl (Or.inl h)
      · exact Or.inr h
    unfold spec
    simp only [hnd, Bool.false_eq_true, ↓reduceIte, List.nil_append]
    exact slow_id (k := r :: rest) (by intro x hx; rcases List.mem_cons.mp hx with rfl | hx; exact hi; exact hr x hx)

/-- the mapping is idempotent -/
theorem idempotent (k : List Nat) : run (run k) = run k := by
  cases k with
  | nil => rfl
  | cons r rest => exact id_on_valid _ (valid (r :: rest) (by simp))

example : run [49, 97, 46, 98] = [95, 49, 97, 95, 98] := by decide   -- "1a.b" ↦ "_1a_b"
example : Valid (run [46]) := valid _ (by simp)

end K2L
