namespace Sel

inductive Tok
  | ident (s : String) | str (s : String)
  | comma | openBrace | closeBrace | openParen | closeParen
  | eq | neq | re | nre | pipe | eof
deriving DecidableEq, Repr

inductive MOp | eq | neq | re | nre deriving DecidableEq, Repr

structure Matcher where
  label : String
  op : MOp
  value : String
deriving DecidableEq, Repr

inductive Err | unexpected (t : Tok) | badRegex (s : String) deriving DecidableEq, Repr

variable (reOk : String → Bool)

def parseMatcher : List Tok → Except Err (Matcher × List Tok)
  | .ident l :: t :: .str v :: rest =>
    match (match t with | .eq => some MOp.eq | .neq => some .neq | .re => some .re | .nre => some .nre | _ => none) with
    | none => .error (.unexpected t)
    | some op =>
      if (op = .re ∨ op = .nre) ∧ reOk v = false then .error (.badRegex v)
      else .ok (⟨l, op, v⟩, rest)
  | .ident _ :: t :: u :: _ =>
    match t with
    | .eq | .neq | .re | .nre => .error (.unexpected u)
    | _ => .error (.unexpected t)
  | .ident _ :: [t] => match t with | .eq | .neq | .re | .nre => .error (.unexpected .eof) | _ => .error (.unexpected t)
  | [.ident _] => .error (.unexpected .eof)
  | t :: _ => .error (.unexpected t)
  | [] => .error (.unexpected .eof)

/-- loop of parseSelector after `{`, non-empty case -/
def parseMatchers : Nat → List Tok → Except Err (List Matcher × List Tok)
  | 0, _ => .error (.unexpected .eof)
  | fuel+1, toks =>
    match parseMatcher reOk toks with
    | .error e => .error e
    | .ok (m, rest) =>
      match rest with
      | .closeBrace :: rest' => .ok ([m], rest')
      | .comma :: rest' =>
        match parseMatchers fuel rest' with
        | .error e => .error e
        | .ok (ms, r) => .ok (m :: ms, r)
      | t :: _ => .error (.unexpected t)
      | [] => .error (.unexpected .eof)

def parseSelector (toks : List Tok) : Except Err (List Matcher × List Tok) :=
  match toks with
  | .openBrace :: .closeBrace :: rest => .ok ([], rest)
  | .openBrace :: rest => parseMatchers reOk (rest.length + 1) rest
  | t :: _ => .error (.unexpected t)
  | [] => .error (.unexpected .eof)

def MOp.tok : MOp → Tok | .eq => .eq | .neq => .neq | .re => .re | .nre => .nre

def renderMatcher (m : Matcher) : List Tok := [.ident m.label, m.op.tok, .str m.value]

def renderMatchers : List Matcher → List Tok
  | [] => []
  | [m] => renderMatcher m
  | m :: ms => renderMatcher m ++ [.comma] ++ renderMatchers ms

def renderSelector (ms : List Matcher) : List Tok := [.openBrace] ++ renderMatchers ms ++ [.closeBrace]

def Matcher.wf (m : Matcher) : Prop := (m.op = .re ∨ m.op = .nre) → reOk m.value = true

theorem parseMatcher_render (m : Matcher) (h : m.wf reOk) (rest : List Tok) :
    parseMatcher reOk (renderMatcher m ++ rest) = .ok (m, rest) := by
  obtain ⟨l, op, v⟩ := m
  cases op <;> simp_all [renderMatcher, parseMatcher, MOp.tok, Matcher.wf]

theorem parseMatchers_render (ms : List Matcher) (hne : ms ≠ []) (h : ∀ m ∈ ms, m.wf reOk) (rest : List Tok)
    (fuel : Nat) (hf : ms.length ≤ fuel) :
    parseMatchers reOk fuel (renderMatchers ms ++ .closeBrace :: rest) = .ok (ms, rest) := by
  induction ms generalizing fuel with
  | nil => exact absurd rfl hne
  | cons m ms ih =>
    cases fuel with
    | zero => simp at hf
    | succ fuel =>
      cases ms with
      | nil =>
        simp only [renderMatchers, parseMatchers]
        rw [parseMatcher_render reOk m (h m (by simp))]
      | cons m2 ms2 =>
        have ih' := ih (by simp) (fun x hx => h x (by simp [hx])) fuel (by simp at hf ⊢; omega)
        simp only [renderMatchers, parseMatchers, List.append_assoc]
        rw [parseMatcher_render reOk m (h m (by simp))]
        simp only [List.cons_append, List.nil_append]
        rw [ih']

theorem parseSelector_render (ms : List Matcher) (h : ∀ m ∈ ms, m.wf reOk) (rest : List Tok) :
    parseSelector reOk (renderSelector ms ++ rest) = .ok (ms, rest) := by
  cases ms with
  | nil => simp [renderSelector, renderMatchers, parseSelector]
  | cons m ms =>
    have hlen : (m :: ms).length ≤ (renderMatchers (m :: ms) ++ Tok.closeBrace :: rest).length + 1 := by
      have : ∀ l : List Matcher, l.length ≤ (renderMatchers l).length := by
        intro l
        induction l with
        | nil => simp
        | cons a l ih => cases l with
          | nil => simp [renderMatchers, renderMatcher]
          | cons b l => simp [renderMatchers, renderMatcher] at ih ⊢; omega
      have := this (m :: ms); simp at this ⊢; omega
    have key := parseMatchers_render reOk (m :: ms) (by simp) h rest _ hlen
    have hshape : ∃ l t r, renderMatchers (m :: ms) = .ident l :: t :: r := by
      cases ms <;> simp [renderMatchers, renderMatcher]
    obtain ⟨l, t, r, hr⟩ := hshape
    simp only [renderSelector, List.append_assoc, List.cons_append, List.nil_append, List.singleton_append]
    rw [hr] at key ⊢
    simp only [List.cons_append] at key ⊢
    simp only [parseSelector]
    exact key

end Sel
