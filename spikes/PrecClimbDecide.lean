import Spike.Basic
namespace Spike

theorem chains3 : ((allChains 3).all fun c => parseChain (chainToks c) == specChain rightAssoc (chainToks c)) = true := by
  decide +kernel

theorem chains4 : ((allChains 4).all fun c => parseChain (chainToks c) == specChain rightAssoc (chainToks c)) = true := by
  decide +kernel

#print axioms chains4
end Spike
