namespace Spike

/-- precedence classes of the 15 operators -/
inductive Op | or | and | unless | eq | ne | gt | ge | lt | le | add | sub | mul | div | mod | pow
deriving DecidableEq, Repr, Inhabited

def Op.prec : Op → Nat
  | .or => 1 | .and => 2 | .unless => 2
  | .eq => 3 | .ne => 3 | .gt => 3 | .ge => 3 | .lt => 3 | .le => 3
  | .add => 4 | .sub => 4 | .mul => 5 | .div => 5 | .mod => 5 | .pow => 6

def Op.all : List Op := [.or,.and,.unless,.eq,.ne,.gt,.ge,.lt,.le,.add,.sub,.mul,.div,.mod,.pow]

inductive Tree | leaf (n : Nat) | node (l : Tree) (op : Op) (r : Tree)
deriving DecidableEq, Repr, Inhabited

inductive Tok | num (n : Nat) | op (o : Op)
deriving DecidableEq, Repr

/-- model of parseBinOp, fuel-based, mirrors the two nested loops -/
def parse1 : List Tok → Option (Tree × List Tok)
  | .num n :: rest => some (.leaf n, rest)
  | _ => none

def peekOp : List Tok → Option Op
  | .op o :: _ => some o
  | _ => none

mutual
def parseBinOp (fuel : Nat) (left : Tree) (minPrec : Nat) (toks : List Tok) : Option (Tree × List Tok) :=
  match fuel with
  | 0 => none
  | fuel+1 =>
    match peekOp toks with
    | none => some (left, toks)
    | some op =>
      if op.prec < minPrec then some (left, toks) else
      match parse1 toks.tail with
      | none => none
      | some (right, rest) =>
        match inner fuel op right rest with
        | none => none
        | some (right', rest') => parseBinOp fuel (.node left op right') minPrec rest'
def inner (fuel : Nat) (op : Op) (right : Tree) (toks : List Tok) : Option (Tree × List Tok) :=
  match fuel with
  | 0 => none
  | fuel+1 =>
    match peekOp toks with
    | none => some (right, toks)
    | some rop =>
      if rop.prec < op.prec then some (right, toks) else
      let np := if rop.prec > op.prec then op.prec + 1 else op.prec
      match parseBinOp fuel right np toks with
      | none => none
      | some (right', rest') => inner fuel op right' rest'
end

def parseChain (toks : List Tok) : Option Tree :=
  match parse1 toks with
  | none => none
  | some (l, rest) =>
    match parseBinOp (2 * toks.length + 2) l 0 rest with
    | some (t, []) => some t
    | _ => none

/-- spec: all-right-assoc precedence grouping -/
def rightAssoc (_ : Op) : Bool := true
def convRightAssoc : Op → Bool | .pow => true | _ => false

/-- generic spec parser: classic precedence climbing parametrised by associativity -/
def climb (ra : Op → Bool) (fuel : Nat) (left : Tree) (minPrec : Nat) (toks : List Tok) : Option (Tree × List Tok) :=
  match fuel with
  | 0 => none
  | fuel+1 =>
    match peekOp toks with
    | none => some (left, toks)
    | some op =>
      if op.prec < minPrec then some (left, toks) else
      match parse1 toks.tail with
      | none => none
      | some (r0, rest) =>
        let q := if ra op then op.prec else op.prec + 1
        match climb ra fuel r0 q rest with
        | none => none
        | some (r, rest') => climb ra fuel (.node left op r) minPrec rest'

def specChain (ra : Op → Bool) (toks : List Tok) : Option Tree :=
  match parse1 toks with
  | none => none
  | some (l, rest) =>
    match climb ra (2 * toks.length + 2) l 0 rest with
    | some (t, []) => some t
    | _ => none

def chainToks : List Op → List Tok
  | ops => (Tok.num 0) :: (ops.zipIdx.flatMap fun (o, i) => [Tok.op o, Tok.num (i+1)])

def allChains : Nat → List (List Op)
  | 0 => [[]]
  | n+1 => (allChains n).flatMap fun c => Op.all.map fun o => o :: c

#eval parseChain (chainToks [.sub, .add, .mul, .div, .mod, .pow])
#eval specChain rightAssoc (chainToks [.sub, .add, .mul, .div, .mod, .pow])
#eval specChain convRightAssoc (chainToks [.sub, .add, .mul, .div, .mod, .pow])
#eval (allChains 4).length
#eval (allChains 4).all fun c => parseChain (chainToks c) == specChain rightAssoc (chainToks c)

end Spike
