import Spike.Basic
open Spike

def opOfString : String → Option Op
  | "or" => some .or | "and" => some .and | "unless" => some .unless
  | "==" => some .eq | "!=" => some .ne | ">" => some .gt | ">=" => some .ge | "<" => some .lt | "<=" => some .le
  | "+" => some .add | "-" => some .sub | "*" => some .mul | "/" => some .div | "%" => some .mod | "^" => some .pow
  | _ => none

partial def loop (h : IO.FS.Stream) (out : IO.FS.Stream) : IO Unit := do
  let line ← h.getLine
  if line.isEmpty then return ()
  let ws := (line.trimAscii.toString.splitOn " ")
  let ops := ws.filterMap opOfString
  out.putStrLn (reprStr (parseChain (chainToks ops)) |>.replace "\n" " ")
  loop h out

def main : IO Unit := do
  loop (← IO.getStdin) (← IO.getStdout)
