/-! C08 / C10 / C11 spike: grouping by key is a partition: distinct keys, each group = the members with that key
    in arrival order, nothing lost. -/
namespace Group

variable {K E : Type} [DecidableEq K]

def insert (k : K) (e : E) : List (K × List E) → List (K × List E)
  | [] => [(k, [e])]
  | (k', es) :: rest => if k = k' then (k', es ++ [e]) :: rest else (k', es) :: insert k e rest

/-- streams / series under construction: a map keyed by `f e`, modelled as an association list -/
def group (f : E → K) (es : List E) : List (K × List E) :=
  es.foldl (fun acc e => insert (f e) e acc) []

def keys (g : List (K × List E)) : List K := g.map (·.1)

theorem keys_insert (k : K) (e : E) (g : List (K × List E)) :
    keys (insert k e g) = if k ∈ keys g then keys g else keys g ++ [k] := by
  induction g with
  | nil => simp [insert, keys]
  | cons x rest ih =>
    obtain ⟨k', es⟩ := x
    simp only [insert]
    by_cases h : k = k'
    · subst h; simp [keys]
    · simp only [h, ↓reduceIte, keys, List.map_cons, List.mem_cons, false_or] at ih ⊢
      rw [ih]
      by_cases hm : k ∈ List.map (fun x => x.1) rest <;> simp [hm]

def lookup (k : K) : List (K × List E) → List E
  | [] => []
  | (k', es) :: rest => if k = k' then es else lookup k rest

theorem lookup_insert (k k2 : K) (e : E) (g : List (K × List E)) :
    lookup k2 (insert k e g) = if k2 = k then lookup k2 g ++ [e] else lookup k2 g := by
  induction g with
  | nil => by_cases h : k2 = k <;> simp [insert, lookup, h]
  | cons x rest ih =>
    obtain ⟨k', es⟩ := x
    simp only [insert]
    by_cases h : k = k'
    · subst h
      by_cases h2 : k2 = k <;> simp [lookup, h2]
    · simp only [h, ↓reduceIte, lookup]
      by_cases h3 : k2 = k'
      · subst h3
        have : ¬ k2 = k := fun hh => h hh.symm
        simp [this]
      · simp [h3, ih]

/-- invariant of the fold -/
structure Inv (f : E → K) (seen : List E) (g : List (K × List E)) : Prop where
  nodup : (keys g).Nodup
  content : ∀ k, lookup k g = seen.filter (fun e => f e = k)
  keysOf : ∀ k, k ∈ keys g ↔ ∃ e ∈ seen, f e = k

theorem inv_step (f : E → K) (seen : List E) (g : List (K × List E)) (e : E) (h : Inv f seen g) :
    Inv f (seen ++ [e]) (insert (f e) e g) := by
  refine ⟨?_, ?_, ?_⟩
  · rw [keys_insert]
    by_cases hm : f e ∈ keys g
    · simp [hm, h.nodup]
    · simp only [hm, ↓reduceIte]
      exact List.nodup_append.mpr ⟨h.nodup, by simp, by intro a ha b hb; simp at hb; subst hb; intro hab; exact hm (hab ▸ ha)⟩
  · intro k
    rw [lookup_insert, h.content, List.filter_append]
    by_cases hk : k = f e
    · subst hk; simp
    · have : ¬ f e = k := fun hh => hk hh.symm
      simp [hk, this]
  · intro k
    rw [keys_insert]
    by_cases hm : f e ∈ keys g
    · simp only [hm, ↓reduceIte, h.keysOf, List.mem_append, List.mem_singleton]
      constructor
      · rintro ⟨x, hx, rfl⟩; exact ⟨x, Or.inl hx, rfl⟩
      · rintro ⟨x, hx | rfl, rfl⟩
        · exact ⟨x, hx, rfl⟩
        · exact (h.keysOf _).mp hm
    · simp only [hm, ↓reduceIte, List.mem_append, List.mem_singleton, h.keysOf]
      constructor
      · rintro (⟨x, hx, rfl⟩ | rfl)
        · exact ⟨x, Or.inl hx, rfl⟩
        · exact ⟨e, Or.inr rfl, rfl⟩
      · rintro ⟨x, hx | rfl, rfl⟩
        · exact Or.inl ⟨x, hx, rfl⟩
        · exact Or.inr rfl

theorem foldl_inv (f : E → K) (es seen : List E) (g : List (K × List E)) (h : Inv f seen g) :
    Inv f (seen ++ es) (es.foldl (fun acc e => insert (f e) e acc) g) := by
  induction es generalizing seen g with
  | nil => simpa using h
  | cons e es ih =>
    have := ih (seen ++ [e]) _ (inv_step f seen g e h)
    simpa [List.append_assoc] using this

/-- C08/C10: no two groups share a key; the group of key `k` is exactly the members with that key, in arrival
    order; a key has a group iff some member carries it. -/
theorem group_spec (f : E → K) (es : List E) : Inv f es (group f es) := by
  have := foldl_inv f es [] [] ⟨by simp [keys], by intro k; simp [lookup], by intro k; simp [keys]⟩
  simpa [group] using this

end Group
