/-! C06 spike: logqlpattern.Match — whatever was written into the line comes back as that capture. -/
namespace Pat

variable {α : Type} [DecidableEq α]

/-- strings.Index(s, sep) -/
def findSep (sep : List α) : List α → Option Nat
  | [] => if sep.isPrefixOf ([] : List α) then some 0 else none
  | c :: t => if sep.isPrefixOf (c :: t) then some 0 else (findSep sep t).map (· + 1)

/-- strings.Cut(s, sep): (before, found) -/
def cut (sep s : List α) : List α × Bool :=
  match findSep sep s with
  | some k => (s.take k, true)
  | none => (s, false)

/-- strings.CutPrefix -/
def cutPrefix (p s : List α) : Option (List α) :=
  if p.isPrefixOf s then some (s.drop p.length) else none

inductive Part (α : Type)
  | lit (v : List α)
  | cap (name : Nat) (skip : Bool)      -- skip = the `_` capture

def Part.value : Part α → List α
  | .lit v => v
  | .cap _ _ => []      -- (the parser never puts two captures next to each other)

/-- mirrors Match: returns the captures in order and whether the whole pattern matched -/
def matchP : List (Part α) → List α → List (Nat × List α) × Bool
  | [], _ => ([], true)
  | .lit v :: ps, input =>
    match cutPrefix v input with
    | none => ([], false)
    | some rest => matchP ps rest
  | .cap n skip :: ps, input =>
    match ps with
    | [] => (if skip then [] else [(n, input)], true)
    | next :: _ =>
      let c := cut next.value input
      let here := if skip then [] else [(n, c.1)]
      if c.2 then (here ++ (matchP ps (input.drop c.1.length)).1, (matchP ps (input.drop c.1.length)).2)
      else (here, false)

/-- `sep` does not occur in `v ++ sep ++ after` before position `|v|` -/
def NoEarly (sep v after : List α) : Prop :=
  ∀ k, k < v.length → sep.isPrefixOf ((v ++ sep ++ after).drop k) = false

theorem isPrefixOf_append_self (p s : List α) : p.isPrefixOf (p ++ s) = true := by
  induction p with
  | nil => simp
  | cons a p ih => simp [List.isPrefixOf, ih]

theorem findSep_at (sep v after : List α) (h : NoEarly sep v after) :
    findSep sep (v ++ sep ++ after) = some v.length := by
  induction v with
  | nil =>
    simp only [List.nil_append, List.length_nil]
    cases hs : sep ++ after with
    | nil =>
      have : sep = [] := by
        cases sep with
        | nil => rfl
        | cons a s => simp at hs
      subst this
      simp [findSep]
    | cons c t =>
      have := isPrefixOf_append_self sep after
      rw [hs] at this
      simp [findSep, this]
  | cons a v ih =>
    have h0 := h 0 (by simp)
    simp only [List.drop_zero] at h0
    have ih' := ih (by
      intro k hk
      have := h (k + 1) (by simp; omega)
      simpa using this)
    simp only [List.cons_append, List.append_assoc] at h0 ih' ⊢
    simp only [findSep, h0, Bool.false_eq_true, ↓reduceIte, ih', Option.map_some, List.length_cons]

theorem cut_at (sep v after : List α) (h : NoEarly sep v after) :
    cut sep (v ++ sep ++ after) = (v, true) := by
  have := findSep_at sep v after h
  simp only [cut, this]
  simp

theorem cutPrefix_append (p s : List α) : cutPrefix p (p ++ s) = some s := by
  simp [cutPrefix, isPrefixOf_append_self]

/-- a rendered line: segments `(capture, value, following literal)`; the last capture may have no literal after it -/
structure Seg (α : Type) where
  name : Nat
  skip : Bool
  value : List α
  lit : List α

def parts : List (Seg α) → List (Part α)
  | [] => []
  | [s] => .cap s.name s.skip :: (if s.lit = [] then [] else [.lit s.lit])
  | s :: t => .cap s.name s.skip :: .lit s.lit :: parts t

def line : List (Seg α) → List α
  | [] => []
  | s :: t => s.value ++ s.lit ++ line t

def captures (segs : List (Seg α)) : List (Nat × List α) :=
  (segs.filter (fun s => !s.skip)).map (fun s => (s.name, s.value))

/-- side condition of the round trip: each literal occurs first exactly where it was written -/
def Clean : List (Seg α) → Prop
  | [] => True
  | [s] => s.lit = [] ∨ NoEarly s.lit s.value []
  | s :: t => s.lit ≠ [] ∧ NoEarly s.lit s.value (line t) ∧ Clean t

theorem drop_value (v rest : List α) : (v ++ rest).drop v.length = rest := by simp

def here (s : Seg α) : List (Nat × List α) := if s.skip then [] else [(s.name, s.value)]

theorem captures_cons (s : Seg α) (t : List (Seg α)) : captures (s :: t) = here s ++ captures t := by
  cases hs : s.skip <;> simp [captures, here, hs, List.filter_cons]

/-- a capture followed by its literal, on a line where the literal first occurs right after the value -/
theorem match_cap_lit (s : Seg α) (ps : List (Part α)) (rest : List α) (h : NoEarly s.lit s.value rest) :
    matchP (.cap s.name s.skip :: .lit s.lit :: ps) (s.value ++ s.lit ++ rest) =
      (here s ++ (matchP ps rest).1, (matchP ps rest).2) := by
  have hcut := cut_at s.lit s.value rest h
  have hdrop : (s.value ++ s.lit ++ rest).drop s.value.length = s.lit ++ rest := by
    simp [List.append_assoc]
  have hlit : matchP (.lit s.lit :: ps) (s.lit ++ rest) = matchP ps rest := by
    simp [matchP, cutPrefix_append]
  rw [matchP]
  simp only [Part.value, hcut, ↓reduceIte, hdrop, hlit, here]

/-- C06 (pattern): the captures of a line built from the pattern are exactly the written values. -/
theorem match_roundtrip (segs : List (Seg α)) (hne : segs ≠ []) (hc : Clean segs) :
    matchP (parts segs) (line segs) = (captures segs, true) := by
  induction segs with
  | nil => exact absurd rfl hne
  | cons s t ih =>
    cases t with
    | nil =>
      by_cases hl : s.lit = []
      · cases hs : s.skip <;> simp [parts, line, captures, hl, matchP, hs]
      · have hcl : NoEarly s.lit s.value [] := by
          rcases hc with h | h
          · exact absurd h hl
          · exact h
        have := match_cap_lit s [] [] hcl
        simp only [parts, hl, ↓reduceIte, line, List.append_nil] at this ⊢
        rw [this, captures_cons]
        simp [matchP, captures]
    | cons s2 t2 =>
      obtain ⟨hl, hno, hct⟩ := hc
      have ih' := ih (by simp) hct
      have := match_cap_lit s (parts (s2 :: t2)) (line (s2 :: t2)) hno
      rw [show parts (s :: s2 :: t2) = .cap s.name s.skip :: .lit s.lit :: parts (s2 :: t2) from rfl,
        show line (s :: s2 :: t2) = s.value ++ s.lit ++ line (s2 :: t2) from rfl, this, ih']
      simp [captures_cons]

end Pat
