namespace Cal
/-- Howard Hinnant's days_from_civil, for years ≥ 1 (all Nat arithmetic; March-based year) -/
def daysFromCivil (y m d : Nat) : Nat :=
  let y' := if m ≤ 2 then y - 1 else y
  let era := y' / 400
  let yoe := y' - era * 400
  let mp := (m + 9) % 12
  let doy := (153 * mp + 2) / 5 + d - 1
  let doe := yoe * 365 + yoe / 4 - yoe / 100 + doy
  era * 146097 + doe          -- days since 0000-03-01

def civilFromDays (z : Nat) : Nat × Nat × Nat :=
  let era := z / 146097
  let doe := z - era * 146097
  let yoe := (doe - doe / 1460 + doe / 36524 - doe / 146096) / 365
  let y := yoe + era * 400
  let doy := doe - (365 * yoe + yoe / 4 - yoe / 100)
  let mp := (5 * doy + 2) / 153
  let d := doy - (153 * mp + 2) / 5 + 1
  let m := if mp < 10 then mp + 3 else mp - 9
  (if m ≤ 2 then y + 1 else y, m, d)

def rt (z : Nat) : Bool :=
  let (y, m, d) := civilFromDays z
  daysFromCivil y m d == z && 1 ≤ m && m ≤ 12 && 1 ≤ d && d ≤ 31

-- 2001-01-01 = day 730792 since 0000-03-01 ; 2200-12-31 ≈ +73048
def base : Nat := daysFromCivil 2001 1 1
#eval base
#eval civilFromDays (base + 73048)
def allFrom (start n : Nat) : Bool := (List.range n).all fun i => rt (start + i)

theorem decade0 : allFrom base 3653 = true := by decide +kernel
end Cal
