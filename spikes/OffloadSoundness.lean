/-! C01 spike: offloading a line filter to the storage backend is sound exactly when every stage in front of it
    is stateless and leaves the line alone. -/
namespace Offload

structure Item (L : Type) where
  ts : Nat
  line : List UInt8
  labels : L

variable {L σ : Type}

/-- a pipeline stage over a shared state `σ` (only `distinct` writes it) -/
structure Stage (L σ : Type) where
  run : σ → Item L → σ × Option (Item L)

def Stage.Stateless (s : Stage L σ) : Prop := ∀ st it, (s.run st it).1 = st
def Stage.KeepsLine (s : Stage L σ) : Prop := ∀ st it it', (s.run st it).2 = some it' → it'.line = it.line

/-- Pipeline.Process: stages in order, short-circuit on the first rejection -/
def runAll : List (Stage L σ) → σ → Item L → σ × Option (Item L)
  | [], st, it => (st, some it)
  | s :: ss, st, it =>
    match s.run st it with
    | (st', none) => (st', none)
    | (st', some it') => runAll ss st' it'

/-- a line filter stage -/
def lineFilter (p : List UInt8 → Bool) : Stage L σ :=
  ⟨fun st it => (st, if p it.line then some it else none)⟩

/-- entryIterator.Next loop with a limit (`lim = none` = unlimited) -/
def iter (stages : List (Stage L σ)) : Option Nat → σ → List (Item L) → List (Item L)
  | _, _, [] => []
  | lim, st, it :: rest =>
    if lim = some 0 then [] else
    match runAll stages st it with
    | (st', none) => iter stages lim st' rest
    | (st', some out) => out :: iter stages (lim.map (· - 1)) st' rest

/-- a record the offloaded filter rejects is rejected by the pipeline too, without touching the state -/
theorem rejected_no_effect (pre post : List (Stage L σ)) (p : List UInt8 → Bool)
    (hpre : ∀ s ∈ pre, s.Stateless ∧ s.KeepsLine) (st : σ) (it : Item L) (hp : p it.line = false) :
    runAll (pre ++ lineFilter p :: post) st it = (st, none) := by
  induction pre generalizing it with
  | nil => simp [runAll, lineFilter, hp]
  | cons s ss ih =>
    obtain ⟨hsl, hkl⟩ := hpre s (by simp)
    simp only [List.cons_append, runAll]
    cases hr : s.run st it with
    | mk st' o =>
      have hst : st' = st := by have := hsl st it; rw [hr] at this; exact this
      subst hst
      cases o with
      | none => rfl
      | some it' =>
        have hline : it'.line = it.line := hkl st' it it' (by rw [hr])
        exact ih (fun x hx => hpre x (by simp [hx])) it' (by rw [hline]; exact hp)

/-- C01 (capability independence, line filters): pre-filtering the record stream by an offloaded line filter
    does not change the result, for any limit and any (stateful) stages behind the filter. -/
theorem offload_sound (pre post : List (Stage L σ)) (p : List UInt8 → Bool)
    (hpre : ∀ s ∈ pre, s.Stateless ∧ s.KeepsLine) (lim : Option Nat) (st : σ) (items : List (Item L)) :
    iter (pre ++ lineFilter p :: post) lim st (items.filter (fun it => p it.line)) =
      iter (pre ++ lineFilter p :: post) lim st items := by
  induction items generalizing lim st with
  | nil => rfl
  | cons it rest ih =>
    by_cases hp : p it.line = true
    · simp only [List.filter_cons, hp, ↓reduceIte, iter]
      split
      · rfl
      · cases hr : runAll (pre ++ lineFilter p :: post) st it with
        | mk st' o => cases o <;> simp [ih]
    · have hp' : p it.line = false := by simpa using hp
      simp only [List.filter_cons, hp', Bool.false_eq_true, ↓reduceIte]
      rw [ih]
      conv => rhs; rw [iter]
      rw [rejected_no_effect pre post p hpre st it hp']
      by_cases hl : lim = some 0
      · subst hl
        cases rest <;> simp [iter]
      · simp [hl]

end Offload
