import Spike.Offload  -- = OffloadSoundness.lean in this directory
/-! C19 spike: filters obey the algebra of sets (pure filters appended to an arbitrary, possibly stateful, pipeline). -/
namespace Offload

variable {L σ : Type}

/-- a pure filter: decides on the item, writes nothing -/
def pureFilter (p : Item L → Bool) : Stage L σ := ⟨fun st it => (st, if p it then some it else none)⟩

theorem runAll_append_pure (stages : List (Stage L σ)) (p : Item L → Bool) (st : σ) (it : Item L) :
    runAll (stages ++ [pureFilter p]) st it =
      ((runAll stages st it).1, (runAll stages st it).2.bind (fun o => if p o then some o else none)) := by
  induction stages generalizing st it with
  | nil =>
    simp only [List.nil_append, runAll, pureFilter]
    by_cases hp : p it = true <;> simp [hp]
  | cons s ss ih =>
    simp only [List.cons_append, runAll]
    cases hr : s.run st it with
    | mk st' o =>
      cases o with
      | none => simp
      | some it' => simp [ih]

/-- unlimited evaluation: appending a pure filter = filtering the result -/
theorem iter_append_pure (stages : List (Stage L σ)) (p : Item L → Bool) (st : σ) (items : List (Item L)) :
    iter (stages ++ [pureFilter p]) none st items = (iter stages none st items).filter p := by
  induction items generalizing st with
  | nil => simp [iter]
  | cons it rest ih =>
    simp only [iter, reduceCtorEq, ↓reduceIte, Option.map_none]
    rw [runAll_append_pure]
    cases hr : runAll stages st it with
    | mk st' o =>
      cases o with
      | none => simp [ih]
      | some out =>
        by_cases hp : p out = true
        · simp [hp, ih]
        · simp [hp, ih]

variable (stages : List (Stage L σ)) (st : σ) (items : List (Item L))

/-- q | f returns a sub-list of q -/
theorem filter_sublist (p : Item L → Bool) :
    (iter (stages ++ [pureFilter p]) none st items).Sublist (iter stages none st items) := by
  rw [iter_append_pure]; exact List.filter_sublist

/-- a filter and its negation split q's result into two disjoint parts that together are q's result -/
theorem partition (p : Item L → Bool) :
    (iter (stages ++ [pureFilter p]) none st items ++
      iter (stages ++ [pureFilter (fun x => !p x)]) none st items).Perm (iter stages none st items) := by
  rw [iter_append_pure, iter_append_pure]
  exact List.filter_append_perm p _

/-- pure filters commute -/
theorem commute (p q : Item L → Bool) :
    iter (stages ++ [pureFilter p] ++ [pureFilter q]) none st items =
      iter (stages ++ [pureFilter q] ++ [pureFilter p]) none st items := by
  rw [iter_append_pure, iter_append_pure, iter_append_pure, iter_append_pure, List.filter_filter, List.filter_filter]
  congr 1; funext x; exact Bool.and_comm _ _

/-- and are idempotent -/
theorem idempotent (p : Item L → Bool) :
    iter (stages ++ [pureFilter p] ++ [pureFilter p]) none st items =
      iter (stages ++ [pureFilter p]) none st items := by
  rw [iter_append_pure, iter_append_pure, List.filter_filter]
  congr 1; funext x; simp

/-- `a and b` selects the intersection, `a or b` the union -/
theorem and_inter (p q : Item L → Bool) :
    iter (stages ++ [pureFilter (fun x => p x && q x)]) none st items =
      ((iter stages none st items).filter p).filter q := by
  rw [iter_append_pure, List.filter_filter]
  congr 1; funext x; exact Bool.and_comm _ _

theorem or_union (p q : Item L → Bool) (x : Item L) :
    x ∈ iter (stages ++ [pureFilter (fun x => p x || q x)]) none st items ↔
      x ∈ iter (stages ++ [pureFilter p]) none st items ∨ x ∈ iter (stages ++ [pureFilter q]) none st items := by
  simp only [iter_append_pure, List.mem_filter, Bool.or_eq_true]
  constructor
  · rintro ⟨h, h1 | h2⟩
    · exact Or.inl ⟨h, h1⟩
    · exact Or.inr ⟨h, h2⟩
  · rintro (⟨h, h1⟩ | ⟨h, h2⟩)
    · exact ⟨h, Or.inl h1⟩
    · exact ⟨h, Or.inr h2⟩

/-- a filter that is always true changes nothing -/
theorem true_id : iter (stages ++ [pureFilter (fun _ => true)]) none st items = iter stages none st items := by
  rw [iter_append_pure]; simp

end Offload
