/-! C04 spike: any run of "emit a head with minimal timestamp, refill from the same source" conserves records and order. -/
namespace Merge

structure Rec where
  ts : Nat
  src : Nat      -- tag written by the harness: which source
  idx : Nat      -- and the position inside it
deriving DecidableEq, Repr

/-- `Run srcs out`: `out` can be produced from the sources by repeatedly emitting a head whose timestamp is minimal
    among all current heads (any tie-breaking, hence any heap implementation). -/
inductive Run : List (List Rec) → List Rec → Prop
  | done {srcs} : (∀ s ∈ srcs, s = []) → Run srcs []
  | step {srcs out} (pre : List (List Rec)) (r : Rec) (rest : List Rec) (post : List (List Rec)) :
      srcs = pre ++ (r :: rest) :: post →
      (∀ s ∈ srcs, ∀ h ∈ s.head?, r.ts ≤ h.ts) →
      Run (pre ++ rest :: post) out →
      Run srcs (r :: out)

theorem run_perm {srcs out} (h : Run srcs out) : out.Perm srcs.flatten := by
  induction h with
  | done hall =>
    rename_i srcs
    have : srcs.flatten = [] := by
      simp only [List.flatten_eq_nil_iff]; exact hall
    rw [this]
  | step pre r rest post heq _ _ ih =>
    subst heq
    simp only [List.flatten_append, List.flatten_cons] at ih ⊢
    refine (List.Perm.cons r ih).trans ?_
    exact (List.perm_middle (a := r) (l₁ := pre.flatten) (l₂ := rest ++ post.flatten)).symm

def SortedTs (l : List Rec) : Prop := l.Pairwise (fun a b => a.ts ≤ b.ts)

/-- a head that is minimal among heads is minimal among *all* remaining records when every source is sorted -/
theorem head_min_all {srcs : List (List Rec)} {r : Rec}
    (hs : ∀ s ∈ srcs, SortedTs s) (hmin : ∀ s ∈ srcs, ∀ h ∈ s.head?, r.ts ≤ h.ts) :
    ∀ x ∈ srcs.flatten, r.ts ≤ x.ts := by
  intro x hx
  obtain ⟨s, hsm, hxs⟩ := List.mem_flatten.mp hx
  cases s with
  | nil => simp at hxs
  | cons h t =>
    have h1 := hmin _ hsm h (by simp)
    rcases List.mem_cons.mp hxs with rfl | hxt
    · exact h1
    · have := (List.pairwise_cons.mp (hs _ hsm)).1 x hxt
      omega

theorem run_sorted {srcs out} (h : Run srcs out) (hs : ∀ s ∈ srcs, SortedTs s) : SortedTs out := by
  induction h with
  | done _ => exact List.Pairwise.nil
  | step pre r rest post heq hmin hrun ih =>
    subst heq
    have hs' : ∀ s ∈ pre ++ rest :: post, SortedTs s := by
      intro s hsm
      simp only [List.mem_append, List.mem_cons] at hsm
      rcases hsm with h1 | rfl | h3
      · exact hs s (by simp [h1])
      · exact (List.pairwise_cons.mp (hs (r :: s) (by simp))).2
      · exact hs s (by simp [h3])
    refine List.pairwise_cons.mpr ⟨?_, ih hs'⟩
    intro x hx
    have hall := head_min_all hs hmin
    have hp := run_perm hrun
    have hx' : x ∈ (pre ++ rest :: post).flatten := hp.mem_iff.mp hx
    apply hall
    simp only [List.flatten_append, List.flatten_cons, List.mem_append, List.mem_cons] at hx' ⊢
    rcases hx' with h1 | h2 | h3
    · exact Or.inl h1
    · exact Or.inr (Or.inl (Or.inr h2))
    · exact Or.inr (Or.inr h3)

/-- per-source order: the records of source `i` appear in `out` in their own order.
    Stated with the harness's tags: a source is *well tagged* if its records carry `src = i`. -/
def Tagged (srcs : List (List Rec)) : Prop := ∀ i (h : i < srcs.length), ∀ x ∈ srcs[i], x.src = i

theorem getElem_mid {α} (pre post : List α) (a b : α) (j : Nat)
    (h1 : j < (pre ++ a :: post).length) (h2 : j < (pre ++ b :: post).length) (hne : j ≠ pre.length) :
    (pre ++ a :: post)[j] = (pre ++ b :: post)[j] := by
  by_cases hjp : j < pre.length
  · simp [List.getElem_append_left hjp]
  · obtain ⟨k, rfl⟩ : ∃ k, j = pre.length + (k + 1) := ⟨j - pre.length - 1, by omega⟩
    simp [List.getElem_append_right]

theorem getElem_mid_self {α} (pre post : List α) (a : α) (h : pre.length < (pre ++ a :: post).length) :
    (pre ++ a :: post)[pre.length] = a := by
  simp [List.getElem_append_right]

theorem run_source_order {srcs out} (h : Run srcs out) (ht : Tagged srcs) (i : Nat) (hi : i < srcs.length) :
    out.filter (fun x => x.src == i) = srcs[i] := by
  induction h with
  | done hall =>
    rename_i srcs
    have := hall srcs[i] (List.getElem_mem hi)
    simp [this]
  | step pre r rest post heq _ hrun ih =>
    subst heq
    have hlen : (pre ++ rest :: post).length = (pre ++ (r :: rest) :: post).length := by simp
    have ht' : Tagged (pre ++ rest :: post) := by
      intro j hj x hx
      have hj' : j < (pre ++ (r :: rest) :: post).length := by omega
      apply ht j hj'
      by_cases hje : j = pre.length
      · subst hje
        rw [getElem_mid_self] at hx ⊢
        exact List.mem_cons_of_mem _ hx
      · rw [getElem_mid pre post (r :: rest) rest j hj' hj hje]; exact hx
    have ih' := ih ht' (by omega)
    have hr : r.src = pre.length := ht pre.length (by simp) r (by simp [getElem_mid_self])
    by_cases hip : i = pre.length
    · subst hip
      simp only [List.filter_cons, hr, beq_self_eq_true, ↓reduceIte, ih']
      rw [getElem_mid_self, getElem_mid_self]
    · have hne : (r.src == i) = false := by simp [hr]; omega
      simp only [List.filter_cons, hne, Bool.false_eq_true, ↓reduceIte, ih']
      exact (getElem_mid pre post (r :: rest) rest i hi (by omega) hip).symm

/-- the concurrent opening writes `iters[idx]` for distinct idx: completion order is irrelevant -/
def openAll {α} (n : Nat) (open_ : Nat → α) (order : List Nat) (init : List (Option α)) : List (Option α) :=
  order.foldl (fun a i => a.set i (some (open_ i))) init

example : Run [[⟨1,0,0⟩, ⟨3,0,1⟩], [], [⟨1,2,0⟩]] [⟨1,2,0⟩, ⟨1,0,0⟩, ⟨3,0,1⟩] := by
  refine .step [[⟨1,0,0⟩, ⟨3,0,1⟩], []] ⟨1,2,0⟩ [] [] rfl (by decide) ?_
  refine .step [] ⟨1,0,0⟩ [⟨3,0,1⟩] [[], []] rfl (by decide) ?_
  refine .step [] ⟨3,0,1⟩ [] [[], []] rfl (by decide) ?_
  exact .done (by decide)

end Merge
