/-! C03 spike: Docker multiplexed log framing, decode ∘ encode and truncation. -/
namespace Frames

abbrev Bytes := List UInt8

structure Rec where
  ts : Nat
  typ : UInt8
  body : Bytes
deriving DecidableEq, Repr

inductive End | clean | errBody | errDaemon | errNoSpace | errTs
deriving DecidableEq, Repr

def be32 (n : Nat) : Bytes :=
  [UInt8.ofNat (n / 16777216 % 256), UInt8.ofNat (n / 65536 % 256), UInt8.ofNat (n / 256 % 256), UInt8.ofNat (n % 256)]

def readBe32 : Bytes → Nat
  | [a, b, c, d] => a.toNat * 16777216 + b.toNat * 65536 + c.toNat * 256 + d.toNat
  | _ => 0

theorem readBe32_be32 (n : Nat) (h : n < 4294967296) : readBe32 (be32 n) = n := by
  simp only [be32, readBe32, UInt8.toNat_ofNat']
  omega

/-- strings.Cut(input, " ") -/
def cutSpace : Bytes → Option (Bytes × Bytes)
  | [] => none
  | b :: rest => if b = 32 then some ([], rest) else
      match cutSpace rest with
      | none => none
      | some (x, y) => some (b :: x, y)

theorem cutSpace_append (t body : Bytes) (h : ∀ b ∈ t, b ≠ 32) : cutSpace (t ++ 32 :: body) = some (t, body) := by
  induction t with
  | nil => simp [cutSpace]
  | cons a t ih =>
    have ha : a ≠ 32 := h a (by simp)
    simp [cutSpace, ha, ih (fun b hb => h b (by simp [hb]))]

variable (fmtTs : Nat → Bytes) (parseTs : Bytes → Option Nat)

def payload (r : Rec) : Bytes := fmtTs r.ts ++ 32 :: r.body

def encode (r : Rec) : Bytes := [r.typ, 0, 0, 0] ++ be32 (payload fmtTs r).length ++ payload fmtTs r

inductive Step
  | stop (e : End)
  | item (r : Rec) (rest : Bytes)

/-- one call of parseNext (+ parseDockerLine) -/
def step (bs : Bytes) : Step :=
  if bs.length < 8 then .stop .clean else            -- io.ReadFull: EOF / ErrUnexpectedEOF in the header
  let typ := bs.headD 0
  let size := readBe32 ((bs.drop 4).take 4)
  let rest := bs.drop 8
  if rest.length < size then .stop .errBody else      -- io.CopyN: short body
  if typ = 3 then .stop .errDaemon else
  match cutSpace (rest.take size) with
  | none => .stop .errNoSpace
  | some (t, body) =>
    match parseTs t with
    | none => .stop .errTs
    | some ts => .item ⟨ts, typ, body⟩ (rest.drop size)

/-- iterate until the stream ends -/
def decode : Nat → Bytes → List Rec × End
  | 0, _ => ([], .clean)
  | fuel + 1, bs =>
    match step parseTs bs with
    | .stop e => ([], e)
    | .item r rest => let (rs, e) := decode fuel rest; (r :: rs, e)

structure Codec : Prop where
  roundtrip : ∀ t, parseTs (fmtTs t) = some t
  nospace : ∀ t, ∀ b ∈ fmtTs t, b ≠ 32

def WF (r : Rec) : Prop := r.typ ≠ 3 ∧ (payload fmtTs r).length < 4294967296

theorem encode_length (r : Rec) : (encode fmtTs r).length = 8 + (payload fmtTs r).length := by
  simp [encode, be32]; omega

theorem step_frame (hc : Codec fmtTs parseTs) (r : Rec) (hr : WF fmtTs r) (tail : Bytes) :
    step parseTs (encode fmtTs r ++ tail) = .item r tail := by
  obtain ⟨htyp, hlen⟩ := hr
  have hsz : readBe32 (((encode fmtTs r ++ tail).drop 4).take 4) = (payload fmtTs r).length := by
    have := readBe32_be32 _ hlen
    simpa [encode, be32] using this
  have hdrop : (encode fmtTs r ++ tail).drop 8 = payload fmtTs r ++ tail := by
    simp [encode, be32]
  have hhead : (encode fmtTs r ++ tail).headD 0 = r.typ := by simp [encode]
  have hl : ¬ (encode fmtTs r ++ tail).length < 8 := by
    simp [encode_length]; omega
  have h2 : ¬ (payload fmtTs r ++ tail).length < (payload fmtTs r).length := by simp
  have hcut : cutSpace (payload fmtTs r) = some (fmtTs r.ts, r.body) :=
    cutSpace_append _ _ (hc.nospace r.ts)
  unfold step
  simp only [hl, ↓reduceIte, hsz, hdrop, hhead, htyp, h2, List.take_left', List.drop_left', hcut, hc.roundtrip]

/-- one frame followed by anything: the frame is decoded and decoding continues on the rest -/
theorem decode_frame (hc : Codec fmtTs parseTs) (r : Rec) (hr : WF fmtTs r) (tail : Bytes) (fuel : Nat) :
    decode parseTs (fuel + 1) (encode fmtTs r ++ tail) =
      ((r :: (decode parseTs fuel tail).1), (decode parseTs fuel tail).2) := by
  rw [decode, step_frame fmtTs parseTs hc r hr tail]

def encodeAll (rs : List Rec) : Bytes := rs.flatMap (encode fmtTs)

/-- C03, lossless: any record sequence comes back exactly, then a clean end. -/
theorem decode_encodeAll (hc : Codec fmtTs parseTs) (rs : List Rec) (hr : ∀ r ∈ rs, WF fmtTs r)
    (fuel : Nat) (hf : rs.length < fuel) :
    decode parseTs fuel (encodeAll fmtTs rs) = (rs, .clean) := by
  induction rs generalizing fuel with
  | nil =>
    cases fuel with
    | zero => simp at hf
    | succ f => simp [encodeAll, decode, step]
  | cons r rs ih =>
    cases fuel with
    | zero => simp at hf
    | succ f =>
      have := decode_frame fmtTs parseTs hc r (hr r (by simp)) (encodeAll fmtTs rs) f
      simp only [encodeAll, List.flatMap_cons] at this ⊢
      rw [this]
      have ih' := ih (fun x hx => hr x (by simp [hx])) f (by simp at hf; omega)
      simp only [encodeAll] at ih'
      rw [ih']

/-- C03, truncation: the stream cut inside frame `r` (after `k < |encode r|` of its bytes): all earlier records,
    then a clean end if the cut is inside the 8-byte header, an error if it is inside the body. -/
theorem decode_truncated (hc : Codec fmtTs parseTs) (rs : List Rec) (hr : ∀ r ∈ rs, WF fmtTs r)
    (r : Rec) (hw : WF fmtTs r) (k : Nat) (hk : k < (encode fmtTs r).length)
    (fuel : Nat) (hf : rs.length + 1 < fuel) :
    decode parseTs fuel (encodeAll fmtTs rs ++ (encode fmtTs r).take k) =
      (rs, if k < 8 then .clean else .errBody) := by
  induction rs generalizing fuel with
  | nil =>
    cases fuel with
    | zero => simp at hf
    | succ f =>
      simp only [encodeAll, List.flatMap_nil, List.nil_append]
      have hlen : ((encode fmtTs r).take k).length = k := by
        simp [List.length_take]; omega
      have hstep : step parseTs ((encode fmtTs r).take k) = .stop (if k < 8 then .clean else .errBody) := by
        unfold step
        by_cases h8 : k < 8
        · simp [hlen, h8]
        · have h8' : ¬ ((encode fmtTs r).take k).length < 8 := by rw [hlen]; exact h8
          simp only [h8', ↓reduceIte, h8]
          -- header complete: the announced size is the payload length, but fewer bytes are available
          have hsz : readBe32 ((((encode fmtTs r).take k).drop 4).take 4) = (payload fmtTs r).length := by
            have hk8 : 8 ≤ k := by omega
            have e1 : (((encode fmtTs r).take k).drop 4).take 4 = ((encode fmtTs r).drop 4).take 4 := by
              rw [List.drop_take, List.take_take]
              congr 1; omega
            rw [e1]
            have := readBe32_be32 _ hw.2
            simpa [encode, be32] using this
          have hrest : (((encode fmtTs r).take k).drop 8).length < (payload fmtTs r).length := by
            rw [List.length_drop, hlen]
            have := encode_length fmtTs r
            omega
          simp only [hsz, hrest, ↓reduceIte]
      rw [decode, hstep]
  | cons a rs ih =>
    cases fuel with
    | zero => simp at hf
    | succ f =>
      have hfa := decode_frame fmtTs parseTs hc a (hr a (by simp)) (encodeAll fmtTs rs ++ (encode fmtTs r).take k) f
      simp only [encodeAll, List.flatMap_cons, List.append_assoc] at hfa ⊢
      rw [hfa]
      have ih' := ih (fun x hx => hr x (by simp [hx])) f (by simp at hf ⊢; omega)
      simp only [encodeAll] at ih'
      rw [ih']

end Frames
