namespace Res

abbrev Rid := Nat

structure St where
  next : Nat
  opened : List Rid
  closed : List Rid

inductive Iter
  | leaf (rids : List Rid)
  | un (i : Iter)
  | bin (l r : Iter)
  | none

def Iter.rids : Iter → List Rid
  | .leaf r => r
  | .un i => i.rids
  | .bin l r => l.rids ++ r.rids
  | .none => []

def closeAll (rids : List Rid) (st : St) : St := { st with closed := rids ++ st.closed }

/-- SelectLogs over the containers of one selection: `fails[i]` says whether opening container i fails.
    All opens are attempted (errgroup.Wait joins all goroutines); on any failure the deferred cleanup closes
    every reader that was opened. -/
def openAll : List Bool → St → List Rid × Bool × St
  | [], st => ([], false, st)
  | f :: fs, st =>
    if f then
      let (r, _, st') := openAll fs { st with next := st.next + 1 }
      (r, true, st')
    else
      let rid := st.next
      let (r, failed, st') := openAll fs { st with next := st.next + 1, opened := rid :: st.opened }
      (rid :: r, failed, st')

def selectLogs (fails : List Bool) (st : St) : Except Unit Iter × St :=
  let (rids, failed, st') := openAll fails st
  if failed then (.error (), closeAll rids st') else (.ok (.leaf rids), st')

inductive MExpr
  | range (fails : List Bool) (aggOk : Bool)
  | vecAgg (ok : Bool) (e : MExpr)
  | binop (ok : Bool) (l r : MExpr)
  | litOp (e : MExpr)
  | vector
  | unsupported

def build : MExpr → St → Except Unit Iter × St
  | .range fails aggOk, st =>
    match selectLogs fails st with
    | (.error e, st1) => (.error e, st1)
    | (.ok it, st1) => if aggOk then (.ok it, st1) else (.error (), closeAll it.rids st1)
  | .vecAgg ok e, st =>
    match build e st with
    | (.error e, st1) => (.error e, st1)
    | (.ok it, st1) => if ok then (.ok (.un it), st1) else (.error (), closeAll it.rids st1)
  | .binop ok l r, st =>
    match build l st with
    | (.error e, st1) => (.error e, st1)
    | (.ok li, st1) =>
      match build r st1 with
      | (.error e, st2) => (.error e, closeAll li.rids st2)
      | (.ok ri, st2) =>
        if ok then (.ok (.bin li ri), st2) else (.error (), closeAll ri.rids (closeAll li.rids st2))
  | .litOp e, st =>
    match build e st with
    | (.error e, st1) => (.error e, st1)
    | (.ok it, st1) => (.ok (.un it), st1)
  | .vector, st => (.ok .none, st)
  | .unsupported, st => (.error (), st)

/-- repaired `evalExpr`: Build, read, deferred Close. -/
def evalMetric (e : MExpr) (st : St) : Bool × St :=
  match build e st with
  | (.error _, st1) => (false, st1)
  | (.ok it, st1) => (true, closeAll it.rids st1)

/-- every opened reader is either already closed or in `own` -/
def Covered (st : St) (own : List Rid) : Prop := ∀ r ∈ st.opened, r ∈ st.closed ∨ r ∈ own

theorem covered_close (st : St) (own extra : List Rid) (h : Covered st (own ++ extra)) :
    Covered (closeAll own st) extra := by
  intro r hr
  have := h r (by simpa [closeAll] using hr)
  simp only [closeAll, List.mem_append] at *
  rcases this with h1 | h1 | h1
  · exact Or.inl (Or.inr h1)
  · exact Or.inl (Or.inl h1)
  · exact Or.inr h1

theorem covered_mono (st : St) (a b : List Rid) (h : Covered st a) (hab : ∀ r ∈ a, r ∈ b) : Covered st b := by
  intro r hr; rcases h r hr with h1 | h1
  · exact Or.inl h1
  · exact Or.inr (hab r h1)

theorem openAll_covered (fails : List Bool) (st : St) (own : List Rid) (h : Covered st own) :
    Covered (openAll fails st).2.2 ((openAll fails st).1 ++ own) := by
  induction fails generalizing st own with
  | nil => simpa [openAll] using h
  | cons f fs ih =>
    unfold openAll
    by_cases hf : f
    · simp only [hf, ↓reduceIte]
      exact ih _ own (by simpa [Covered] using h)
    · simp only [hf, ↓reduceIte]
      have hc : Covered { st with next := st.next + 1, opened := st.next :: st.opened } (st.next :: own) := by
        intro r hr
        simp only [List.mem_cons] at hr ⊢
        rcases hr with rfl | hr
        · exact Or.inr (Or.inl rfl)
        · rcases h r hr with h1 | h1
          · exact Or.inl h1
          · exact Or.inr (Or.inr h1)
      have := ih _ (st.next :: own) hc
      refine covered_mono _ _ _ this ?_
      intro r hr; simp at hr ⊢; rcases hr with h1 | h1 | h1 <;> simp [h1]

def Post (own : List Rid) : Except Unit Iter × St → Prop
  | (.error _, st') => Covered st' own
  | (.ok it, st') => Covered st' (it.rids ++ own)

theorem selectLogs_inv (fails : List Bool) (st : St) (own : List Rid) (h : Covered st own) :
    Post own (selectLogs fails st) := by
  have hc := openAll_covered fails st own h
  unfold selectLogs
  by_cases hf : (openAll fails st).2.1
  · simp only [hf, ↓reduceIte, Post]; exact covered_close _ _ _ hc
  · simp only [hf, Post]; simpa [Iter.rids] using hc

theorem build_inv (e : MExpr) : ∀ (st : St) (own : List Rid), Covered st own → Post own (build e st) := by
  induction e with
  | range fails aggOk =>
    intro st own h
    have hs := selectLogs_inv fails st own h
    unfold build
    cases hsel : selectLogs fails st with
    | mk r st1 =>
      rw [hsel] at hs
      cases r with
      | error e => simpa [Post] using hs
      | ok it =>
        simp only [Post] at hs
        by_cases ha : aggOk <;> simp only [ha, ↓reduceIte, Post]
        · exact hs
        · exact covered_close _ _ _ hs
  | vecAgg ok e ih =>
    intro st own h
    have hs := ih st own h
    unfold build
    cases hb : build e st with
    | mk r st1 =>
      rw [hb] at hs
      cases r with
      | error e => simpa [Post] using hs
      | ok it =>
        simp only [Post] at hs
        by_cases ha : ok <;> simp only [ha, ↓reduceIte, Post]
        · simpa [Iter.rids] using hs
        · exact covered_close _ _ _ hs
  | binop ok l r ihl ihr =>
    intro st own h
    have hl := ihl st own h
    unfold build
    cases hbl : build l st with
    | mk rl st1 =>
      rw [hbl] at hl
      cases rl with
      | error e => simpa [Post] using hl
      | ok li =>
        simp only [Post] at hl
        have hr := ihr st1 (li.rids ++ own) hl
        cases hbr : build r st1 with
        | mk rr st2 =>
          rw [hbr] at hr
          simp only [hbr]
          cases rr with
          | error e =>
            simp only [Post] at hr ⊢
            exact covered_close _ _ _ hr
          | ok ri =>
            simp only [Post] at hr
            by_cases ha : ok <;> simp only [ha, ↓reduceIte, Post]
            · refine covered_mono _ _ _ hr ?_
              intro x hx; simp [Iter.rids] at hx ⊢; rcases hx with h1 | h1 | h1 <;> simp [h1]
            · apply covered_close
              apply covered_close
              refine covered_mono _ _ _ hr ?_
              intro x hx; simp at hx ⊢; rcases hx with h1 | h1 | h1 <;> simp [h1]
  | litOp e ih =>
    intro st own h
    have hs := ih st own h
    unfold build
    cases hb : build e st with
    | mk r st1 =>
      rw [hb] at hs
      cases r with
      | error e => simpa [Post] using hs
      | ok it => simpa [Post, Iter.rids] using hs
  | vector => intro st own h; simpa [build, Post, Iter.rids] using h
  | unsupported => intro st own h; simpa [build, Post] using h

/-- C14 (close half): whatever fails, every reader opened during a metric evaluation is closed when it returns. -/
theorem no_leak (e : MExpr) (st : St) (h : Covered st []) : Covered (evalMetric e st).2 [] := by
  have hb := build_inv e st [] h
  unfold evalMetric
  cases hbe : build e st with
  | mk r st1 =>
    rw [hbe] at hb
    cases r with
    | error e => simpa [Post] using hb
    | ok it =>
      simp only [Post] at hb
      exact covered_close _ _ _ hb

example : Covered ⟨0, [], []⟩ [] := by intro r hr; simp at hr
#eval (evalMetric (.binop true (.range [false, false] true) (.range [false, true, false] true)) ⟨0, [], []⟩).2.opened
#eval (evalMetric (.binop true (.range [false, false] true) (.range [false, true, false] true)) ⟨0, [], []⟩).2.closed

end Res
